#!/bin/sh
# Build the framework from files on disk only (offline).
set -e
cd "$(dirname "$0")"
export CARGO_NET_OFFLINE=true
( cd harness && cargo build --release --offline 2>&1 | tail -3 )
( cd harness && cargo build --offline 2>&1 | tail -1 )
# every specification module must parse
sh lib/sany_all.sh
