#!/bin/sh
# Build the framework from files on disk only (offline).
set -e
cd "$(dirname "$0")"
export CARGO_NET_OFFLINE=true
( cd harness && cargo build --release --offline 2>&1 | tail -3 )
