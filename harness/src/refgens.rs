//! Reference derivation of the generator chains (Generators.tla naming function):
//! generator (kind, party, i) = hash-to-group of the i-th 64-byte block of
//! SHAKE256("GeneratorsChain" || kind || LE32(party)), kind in {'G','H'}.

use std::collections::HashMap;

use sha3::{
    digest::{ExtendableOutput, Update, XofReader},
    Shake256,
};

use crate::fm;

pub const CHAIN_PREFIX: &[u8] = b"GeneratorsChain";

pub fn chain_blocks(kind: u8, party: u32, count: usize) -> Vec<[u8; 64]> {
    let mut shake = Shake256::default();
    shake.update(CHAIN_PREFIX);
    let mut label = [kind, 0, 0, 0, 0];
    label[1..5].copy_from_slice(&party.to_le_bytes());
    shake.update(&label);
    let mut rd = shake.finalize_xof();
    (0..count)
        .map(|_| {
            let mut b = [0u8; 64];
            rd.read(&mut b);
            b
        })
        .collect()
}

static BYTES_ROLE: std::sync::Mutex<Option<(u32, std::sync::Arc<HashMap<Vec<u8>, (u8, u32, u32)>>)>> = std::sync::Mutex::new(None);

/// chain block -> (kind, party, i) for parties below `maxparty`; grown (never shrunk) when a later call asks for more parties
fn bytes_role(maxparty: u32, maxi: usize) -> std::sync::Arc<HashMap<Vec<u8>, (u8, u32, u32)>> {
    let mut g = BYTES_ROLE.lock().unwrap();
    let have = g.as_ref().map(|(n, _)| *n).unwrap_or(0);
    if have < maxparty {
        let mut m: HashMap<Vec<u8>, (u8, u32, u32)> = g.as_ref().map(|(_, m)| (**m).clone()).unwrap_or_default();
        for kind in [b'G', b'H'] {
            for party in have..maxparty {
                for (i, b) in chain_blocks(kind, party, maxi).into_iter().enumerate() {
                    m.insert(b.to_vec(), (kind, party, i as u32));
                }
            }
        }
        *g = Some((maxparty, std::sync::Arc::new(m)));
    }
    g.as_ref().unwrap().1.clone()
}

/// basis symbol id -> (kind, party, i) for every symbol of the free-module group that is a chain generator
pub fn fm_roles(maxparty: u32, maxi: usize) -> HashMap<u32, (u8, u32, u32)> {
    let br = bytes_role(maxparty, maxi);
    fm::with_reg(|r| r.uniform_of.iter().filter_map(|(id, b)| br.get(b).map(|role| (*id, *role))).collect())
}
