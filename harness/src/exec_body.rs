// Scenario executor, textually included once per group (`type P`, `pedersen_std`, `GROUP`,
// `grec_start`, `grec_stop`, `GEvents` are provided by the including module).
//
// A scenario is one REPLAY line printed by TLC from MC_Api.tla: a batch of members plus the
// outcome the specification predicts.  The executor concretises it with seeded randomness, runs it
// through the library's public API only, and reports the observed outcome class.

use std::{
    collections::HashMap,
    convert::TryFrom,
    panic::{catch_unwind, AssertUnwindSafe},
};

use curve25519_dalek::scalar::Scalar;
use merlin::Transcript;
use rand_chacha::ChaCha12Rng;
use rand_core::{RngCore, SeedableRng};
use serde_json::{json, Value};
use tari_bulletproofs_plus::{
    commitment_opening::CommitmentOpening,
    extended_mask::ExtendedMask,
    generators::pedersen_gens::ExtensionDegree,
    protocols::curve_point_protocol::CurvePointProtocol,
    range_parameters::RangeParameters,
    range_proof::{RangeProof, VerifyAction},
    range_statement::RangeStatement,
    range_witness::RangeWitness,
    traits::{Compressable, Decompressable, FixedBytesRepr},
    PedersenGens,
};

use crate::util::*;

pub type C = <P as Compressable>::Compressed;

pub fn label_bytes(class: u64) -> &'static [u8] {
    match class {
        0 => b"bppv context zero",
        1 => b"bppv context one",
        _ => b"bppv context other",
    }
}

/// the caller-supplied transcript for a context class: classes 0/1 differ in the label; class 2 has label 0 plus a
/// message the caller absorbed before handing the transcript over (context is state, not only a label)
pub fn mk_transcript(class: u64) -> Transcript {
    if class == 2 {
        let mut t = Transcript::new(label_bytes(0));
        t.append_message(b"caller context", b"an earlier protocol step");
        t
    } else {
        Transcript::new(label_bytes(class))
    }
}

pub fn alt_point(tag: &str, k: u64) -> P {
    P::hash_from_bytes_sha3_512(format!("bppv-alt-{}-{}", tag, k).as_bytes())
}

/// 32 bytes that do not decode as a point (tested, not assumed)
pub fn undecodable(salt: u64) -> [u8; 32] {
    let mut ctr = 0u64;
    loop {
        let h = hash64(&[b"bppv-undecodable", &salt.to_le_bytes(), &ctr.to_le_bytes()]);
        let mut b = [0u8; 32];
        b.copy_from_slice(&h[..32]);
        if C::from_fixed_bytes(b).decompress().is_none() {
            return b;
        }
        ctr += 1;
    }
}

/// seed classes: 0 none; 1, 2 unrelated seeds; 3 = seed 1 with only its LAST byte changed; 4 = seed 1 with only its FIRST byte changed
pub fn seed_scalar(class: u64, run_seed: u64) -> Option<Scalar> {
    match class {
        0 => None,
        3 | 4 => {
            let base = hash_scalar(&[b"bppv-seed", &1u64.to_le_bytes(), &run_seed.to_le_bytes()]).to_bytes();
            let mut b = base;
            if class == 3 {
                // canonical scalars have a top byte of at most 0x10: stay below 2^252 and differ from the original
                b[31] = if base[31] & 0x0f == 0x05 { 0x06 } else { 0x05 };
            } else {
                b[0] ^= 1;
            }
            Option::<Scalar>::from(Scalar::from_canonical_bytes(b)).or(Some(Scalar::from(class)))
        },
        // special VALUES: a seed is any scalar (the zero scalar, one, the largest canonical scalar)
        5 => Some(Scalar::ZERO),
        6 => Some(Scalar::ONE),
        7 => Some(-Scalar::ONE),
        _ => Some(hash_scalar(&[b"bppv-seed", &class.to_le_bytes(), &run_seed.to_le_bytes()])),
    }
}

/// Pedersen generators: standard ones with optional alternative H (pg_h = 1) or alternative G_k (pg_g = k >= 1)
pub fn pedersen(t: usize, pg_h: u64, pg_g: u64) -> PedersenGens<P> {
    let mut pc = pedersen_std(t);
    if pg_h == 2 {
        // only the CACHED ENCODING of H is altered (the record's fields are public): the point stays
        pc.h_base_compressed = alt_point("H", pg_h).compress();
    } else if pg_h != 0 {
        pc.h_base = alt_point("H", pg_h);
        pc.h_base_compressed = pc.h_base.compress();
    }
    if pg_g == 200 {
        pc.g_base_compressed_vec[0] = alt_point("G", pg_g).compress();
    } else if pg_g == 100 {
        // degenerate: the second blinding generator equals the first (two openings of one commitment exist)
        if t >= 2 {
            pc.g_base_vec[t - 1] = pc.g_base_vec[t - 2].clone();
            pc.g_base_compressed_vec[t - 1] = pc.g_base_compressed_vec[t - 2];
        }
    } else if pg_g != 0 {
        let k = (pg_g as usize - 1).min(t - 1);
        pc.g_base_vec[k] = alt_point("G", pg_g);
        pc.g_base_compressed_vec[k] = pc.g_base_vec[k].compress();
    }
    pc
}

#[derive(Default)]
pub struct Ctx {
    pub params: HashMap<(usize, usize, usize, u64, u64), RangeParameters<P>>,
    pub run_seed: u64,
}
impl Ctx {
    pub fn new(run_seed: u64) -> Self {
        Ctx { params: HashMap::new(), run_seed }
    }

    pub fn params(&mut self, n: usize, cap: usize, t: usize, pg_h: u64, pg_g: u64) -> Result<RangeParameters<P>, String> {
        let key = (n, cap, t, pg_h, pg_g);
        if let Some(p) = self.params.get(&key) {
            return Ok(p.clone());
        }
        let p = RangeParameters::init(n, cap, pedersen(t, pg_h, pg_g)).map_err(|e| format!("RangeParameters::init: {}", e))?;
        // keep the cache bounded (large capacities are expensive to hold)
        if self.params.len() > 64 {
            self.params.clear();
        }
        self.params.insert(key, p.clone());
        Ok(p)
    }
}

/// Everything recorded around one library call (only when a recorder is supplied)
pub struct CallRec {
    pub kind: &'static str, // "prove" | "verify"
    pub merlin: Vec<merlin::trace::Ev>,
    pub group: GEvents,
    pub info: Value,
}

pub struct MemberBuilt {
    pub n: usize,
    pub t: usize,
    pub m: usize,
    pub cap: usize,
    pub vals: Vec<u64>,
    pub proms: Vec<Option<u64>>,
    pub blinds: Vec<Vec<Scalar>>,
    pub commitments: Vec<P>,
    pub seed: Option<Scalar>,
    pub label: u64,
    pub proof_bytes: Option<Vec<u8>>,
}

#[derive(Debug, Clone)]
pub struct Outcome {
    pub prove: String,
    pub verify: String,
    pub masks: Vec<String>,
    pub nres: usize,
    pub real_len: usize,
    pub detail: String,
    pub distinct_fail: Option<String>,
}

fn proms_of(v: &Value) -> Vec<Option<u64>> {
    v.as_array().unwrap().iter().map(|p| if p.as_array().map(|a| a.is_empty()).unwrap_or(true) { None } else { u64_from_limbs(p) }).collect()
}

fn mode_of(s: &str) -> VerifyAction {
    match s {
        "VerifyOnly" => VerifyAction::VerifyOnly,
        "RecoverAndVerify" => VerifyAction::RecoverAndVerify,
        _ => VerifyAction::RecoverOnly,
    }
}

/// position (in 32-byte elements after the tag byte) of a named proof element
fn slot_index(slot: &str, j: usize, t: usize) -> usize {
    match slot {
        "d1" => j,
        "A" => t,
        "A1" => t + 1,
        "B" => t + 2,
        "r1" => t + 3,
        "s1" => t + 4,
        "L" => t + 5 + 2 * j,
        "R" => t + 6 + 2 * j,
        _ => panic!("unknown slot {}", slot),
    }
}

const L_BYTES: [u8; 32] = [
    0xed, 0xd3, 0xf5, 0x5c, 0x1a, 0x63, 0x12, 0x58, 0xd6, 0x9c, 0xf7, 0xa2, 0xde, 0xf9, 0xde, 0x14, 0, 0, 0, 0, 0, 0, 0, 0, 0, 0, 0, 0, 0, 0, 0,
    0x10,
];

/// apply one alteration to an encoded proof
pub fn alter_bytes(bytes: &[u8], mu: &Value, salt: u64) -> Vec<u8> {
    let kind = mu["kind"].as_str().unwrap();
    let how = mu["how"].as_str().unwrap_or("none");
    let j = mu["j"].as_i64().unwrap_or(0);
    let t = bytes[0] as usize;
    let mut out = bytes.to_vec();
    let el = |i: usize| 1 + 32 * i;
    match kind {
        "none" => {},
        "scalar" => {
            let i = slot_index(mu["slot"].as_str().unwrap(), j as usize, t);
            let mut cur = [0u8; 32];
            cur.copy_from_slice(&out[el(i)..el(i) + 32]);
            let s = Option::<Scalar>::from(Scalar::from_canonical_bytes(cur)).unwrap_or(Scalar::ZERO);
            let new: [u8; 32] = match how {
                "rand" => {
                    let mut r = hash_scalar(&[b"bppv-mut-scalar", &salt.to_le_bytes()]);
                    if r == s {
                        r += Scalar::ONE;
                    }
                    r.to_bytes()
                },
                "zero" => {
                    if s == Scalar::ZERO {
                        Scalar::ONE.to_bytes()
                    } else {
                        Scalar::ZERO.to_bytes()
                    }
                },
                "plus1" => (s + Scalar::ONE).to_bytes(),
                "noncanon" => {
                    // s + l as an integer when it fits in 256 bits with the same residue; else l itself
                    match salt % 3 {
                        0 => L_BYTES,
                        1 => {
                            let mut b = L_BYTES;
                            b[0] = b[0].wrapping_add(1 + (salt % 7) as u8);
                            b
                        },
                        _ => {
                            let mut b = cur;
                            b[31] |= 0x80;
                            b
                        },
                    }
                },
                _ => panic!("unknown scalar alteration {}", how),
            };
            out[el(i)..el(i) + 32].copy_from_slice(&new);
        },
        "point" => {
            let slot = mu["slot"].as_str().unwrap();
            let i = slot_index(slot, j as usize, t);
            let new: [u8; 32] = match how {
                "rand" => *alt_point("mut", salt).compress().as_fixed_bytes(),
                "identity" => [0u8; 32],
                "undecodable" => undecodable(salt),
                "other" => {
                    // another point element of the same proof
                    let o = match slot {
                        "A" => slot_index("A1", 0, t),
                        "A1" => slot_index("B", 0, t),
                        "B" => slot_index("A", 0, t),
                        "L" => slot_index("R", j as usize, t),
                        _ => slot_index("L", j as usize, t),
                    };
                    let mut b = [0u8; 32];
                    b.copy_from_slice(&bytes[el(o)..el(o) + 32]);
                    b
                },
                _ => panic!("unknown point alteration {}", how),
            };
            out[el(i)..el(i) + 32].copy_from_slice(&new);
        },
        "rounds" => {
            if j > 0 {
                for x in 0..(2 * j as u64) {
                    out.extend_from_slice(alt_point("round", salt.wrapping_mul(31).wrapping_add(x)).compress().as_fixed_bytes());
                }
            } else {
                let cut = (64 * (-j) as usize).min(out.len() - 1);
                out.truncate(out.len() - cut);
            }
        },
        "tag" => {
            out[0] = j as u8;
        },
        "bytes" => match how {
            "trailing1" => out.push(0),
            "trailing32" => out.extend_from_slice(alt_point("trail", salt).compress().as_fixed_bytes()),
            "truncate1" => {
                out.pop();
            },
            "truncate32" => out.truncate(out.len() - 32),
            _ => panic!("unknown bytes alteration {}", how),
        },
        _ => panic!("unknown alteration kind {}", kind),
    }
    out
}

pub fn mask_class(mask: &Option<ExtendedMask>, blinds: &[Scalar]) -> String {
    match mask {
        None => "none".to_string(),
        Some(m) => match m.blindings() {
            Ok(b) if b == blinds => "exact".to_string(),
            _ => "other".to_string(),
        },
    }
}

/// Execute one scenario. `scale`: if Some(real), every model chunk of `model_mb` members is expanded to `real`
/// members by inserting valid filler triples between its first and last member (C03 at the real chunk size).
pub fn run_scenario(
    ctx: &mut Ctx,
    sc: &Value,
    sidx: u64,
    scale: Option<(usize, usize)>,
    mut rec: Option<&mut Vec<CallRec>>,
) -> (Outcome, Vec<MemberBuilt>) {
    let members = sc["members"].as_array().unwrap();
    let mut rng = ChaCha12Rng::seed_from_u64(ctx.run_seed ^ sidx.wrapping_mul(0x9e3779b97f4a7c15));
    let mut built: Vec<MemberBuilt> = Vec::new();
    let mut proofs: Vec<Option<RangeProof<P>>> = Vec::new();
    let mut out = Outcome { prove: "ok".into(), verify: "na".into(), masks: vec![], nres: 0, real_len: 0, detail: String::new(), distinct_fail: None };

    // ---- prove every member --------------------------------------------------------------------
    for (mi, mb) in members.iter().enumerate() {
        let n = mb["n"].as_u64().unwrap() as usize;
        let t = mb["t"].as_u64().unwrap() as usize;
        let m = mb["m"].as_u64().unwrap() as usize;
        let cap = mb["cap"].as_u64().unwrap() as usize;
        let vals: Vec<u64> = mb["vals"].as_array().unwrap().iter().map(|v| u64_from_limbs(v).unwrap()).collect();
        let proms = proms_of(&mb["proms"]);
        let label = mb["label"].as_u64().unwrap();
        let seed = seed_scalar(mb["seed"].as_u64().unwrap(), ctx.run_seed);
        let ppg = mb["ppg"].as_u64().unwrap_or(0);
        let params = match ctx.params(n, cap, t, 0, ppg) {
            Ok(p) => p,
            Err(e) => {
                // every scenario uses a documented-valid configuration: a refusal to construct its parameters is the library's
                // answer to this scenario (an error where the specification predicts a proof), not a problem of the harness
                out.prove = "err".into();
                out.detail = format!("parameters refused: {}", e);
                return (out, built);
            },
        };
        // pairwise distinct blindings; members of one scenario that carry the same non-zero `bseed` get the same ones
        // (and the same external RNG stream), so that pairs of runs differing in exactly one input can be formed (C14)
        let bseed = mb["bseed"].as_u64().unwrap_or(0);
        let bkey = if bseed == 0 { 1000 + mi as u64 } else { bseed };
        let rvar = mb["rvar"].as_u64().unwrap_or(0);
        let zb = mb["zb"].as_u64().unwrap_or(0) as usize; // 1-based position whose blinding factors are all zero
        let zk = mb["zk"].as_u64().unwrap_or(0) as usize; // ... or, if non-zero, only component zk (1-based) of that position
        let blinds: Vec<Vec<Scalar>> = (0..m)
            .map(|j| {
                (0..t)
                    .map(|k| if zb == j + 1 && (zk == 0 || zk == k + 1) { Scalar::ZERO } else { hash_scalar(&[b"bppv-blinding", &ctx.run_seed.to_le_bytes(), &sidx.to_le_bytes(), &bkey.to_le_bytes(), &(j as u64).to_le_bytes(), &(k as u64).to_le_bytes()]) })
                    .collect()
            })
            .collect();
        let mut blinds = blinds;
        // `eqb` = j (1-based, j >= 2): position j carries the SAME blinding vector as position j - 1 (with equal values the two
        // commitments are then the same point)
        let eqb = mb["eqb"].as_u64().unwrap_or(0) as usize;
        if eqb >= 2 && eqb <= m {
            blinds[eqb - 1] = blinds[eqb - 2].clone();
        }
        if mb["wshift"].as_u64().unwrap_or(0) == 1 && t >= 2 {
            for b in blinds.iter_mut() {
                b[t - 2] += Scalar::ONE;
                b[t - 1] -= Scalar::ONE;
            }
        }
        let commitments: Vec<P> = (0..m).map(|j| params.pc_gens().commit(&Scalar::from(vals[j]), &blinds[j]).unwrap()).collect();
        let stmt = match RangeStatement::init(params.clone(), commitments.clone(), proms.clone(), seed) {
            Ok(s) => s,
            Err(e) => {
                out.prove = "harness".into();
                out.detail = format!("RangeStatement::init (prover side): {}", e);
                return (out, built);
            },
        };
        // the witness handed to the prover
        let wk = mb["wit"]["kind"].as_str().unwrap();
        let wj = (mb["wit"]["j"].as_u64().unwrap() as usize).saturating_sub(1);
        let mut openings: Vec<(u64, Vec<Scalar>)> = (0..m).map(|j| (vals[j], blinds[j].clone())).collect();
        match wk {
            "ok" => {},
            "fewer" => {
                openings.pop();
            },
            "more" => openings.push((vals[0], blinds[0].clone())),
            "degree" => {
                for o in openings.iter_mut() {
                    if t < 6 {
                        o.1.push(Scalar::from(7u8));
                    } else {
                        o.1.pop();
                    }
                }
            },
            "blind" => openings[wj].1[t - 1] += Scalar::ONE,
            "value" => openings[wj].0 ^= 1,
            // two openings wrong in compensating ways: positions wj, wj + 1
            "swap" => openings.swap(wj, wj + 1),
            "shift" => {
                openings[wj].0 = openings[wj].0.wrapping_add(1);
                openings[wj + 1].0 = openings[wj + 1].0.wrapping_sub(1);
            },
            "forge" | "ragmore" | "ragnone" => {},
            _ => panic!("unknown witness deviation {}", wk),
        }
        let mut witness = RangeWitness::init(openings.iter().map(|(v, r)| CommitmentOpening::new(*v, r.clone())).collect());
        // the second run of a same-commitment pair REUSES a witness object: it is initialised with the first run's openings and then
        // its (public) openings are replaced by this run's
        if mb["wshift"].as_u64().unwrap_or(0) == 1 && t >= 2 && wk == "ok" {
            let orig: Vec<CommitmentOpening> = (0..m).map(|j| {
                let mut r = blinds[j].clone();
                r[t - 2] -= Scalar::ONE;
                r[t - 1] += Scalar::ONE;
                CommitmentOpening::new(vals[j], r)
            }).collect();
            if let (Ok(w0), Ok(w)) = (RangeWitness::init(orig), witness.as_ref()) {
                let mut w0 = w0;
                w0.openings = w.openings.clone();
                witness = Ok(w0);
            }
        }
        // a witness edited AFTER construction (public fields): one opening gets a surplus blinding factor, or loses all of them
        if let Ok(w) = witness.as_mut() {
            match wk {
                "ragmore" => {
                    let mut r = openings[wj].1.clone();
                    r.push(Scalar::from(7u8));
                    w.openings[wj] = CommitmentOpening::new(openings[wj].0, r);
                },
                "ragnone" => w.openings[wj] = CommitmentOpening::new(openings[wj].0, vec![]),
                _ => {},
            }
        }
        let mut mbuilt = MemberBuilt { n, t, m, cap, vals: vals.clone(), proms: proms.clone(), blinds: blinds.clone(), commitments: commitments.clone(), seed, label, proof_bytes: None };
        let forge = wk == "forge";
        let proof = if forge {
            // the independent prover: no guards; its proof goes through from_bytes like any foreign proof
            if rec.is_some() {
                merlin::trace::start();
                grec_start();
            }
            let bytes = catch_unwind(AssertUnwindSafe(|| ref_prove(&stmt, &vals, &blinds, label_bytes(label), ctx.run_seed ^ sidx.wrapping_mul(77) ^ bkey)));
            let (mev, gev) = if rec.is_some() { (merlin::trace::stop(), grec_stop()) } else { (vec![], Default::default()) };
            match bytes {
                Err(e) => {
                    out.prove = "harness".into();
                    out.detail = format!("reference prover panicked: {}", panic_msg(&e));
                    return (out, built);
                },
                Ok(bytes) => {
                    if let Some(r) = rec.as_deref_mut() {
                        r.push(CallRec {
                            kind: "prove",
                            merlin: mev,
                            group: gev,
                            info: json!({"member": mi, "n": n, "t": t, "m": m, "cap": cap, "label": label, "seeded": seed.is_some(), "bytes": bytes, "reference": true,
                                "commits": stmt.commitments.iter().map(|c| c.compress().as_fixed_bytes().to_vec()).collect::<Vec<_>>(),
                                "H": stmt.generators.h_base().compress().as_fixed_bytes().to_vec(),
                                "G": stmt.generators.g_bases().iter().map(|c| c.compress().as_fixed_bytes().to_vec()).collect::<Vec<_>>()}),
                        });
                    }
                    RangeProof::<P>::from_bytes(&bytes).ok()
                },
            }
        } else {
            match witness {
            Err(_) => None, // the caller cannot even form a witness: no proof
            Ok(w) => {
                let rk = mb["rng"].as_str().unwrap_or("chacha");
                let mut ext = RngModel::new(if rk == "os" { "chacha" } else { rk }, ctx.run_seed ^ sidx.wrapping_mul(0x100000001b3) ^ (bkey << 32) ^ rvar.wrapping_mul(0x9e3779b97f4a7c15));
                if rec.is_some() {
                    merlin::trace::start();
                    grec_start();
                }
                let mut tr = mk_transcript(label);
                let use_os = mb["rng"].as_str() == Some("os");
                let r = catch_unwind(AssertUnwindSafe(|| {
                    if use_os {
                        RangeProof::<P>::prove(&mut tr, &stmt, &w) // the convenience entry point with the operating system's RNG
                    } else {
                        RangeProof::<P>::prove_with_rng(&mut tr, &stmt, &w, &mut ext)
                    }
                }));
                let (mev, gev) = if rec.is_some() { (merlin::trace::stop(), grec_stop()) } else { (vec![], Default::default()) };
                match r {
                    Err(e) => {
                        out.prove = "panic".into();
                        out.detail = format!("prover panicked (member {}): {}", mi, panic_msg(&e));
                        return (out, built);
                    },
                    Ok(Err(_)) => None,
                    Ok(Ok(p)) => {
                        if let Some(r) = rec.as_deref_mut() {
                            r.push(CallRec {
                                kind: "prove",
                                merlin: mev,
                                group: gev,
                                info: json!({"member": mi, "n": n, "t": t, "m": m, "cap": cap, "label": label,
                                    "seeded": seed.is_some(), "bytes": p.to_bytes(), "reference": false,
                                    "commits": stmt.commitments.iter().map(|c| c.compress().as_fixed_bytes().to_vec()).collect::<Vec<_>>(),
                                    "H": stmt.generators.h_base().compress().as_fixed_bytes().to_vec(),
                                    "G": stmt.generators.g_bases().iter().map(|c| c.compress().as_fixed_bytes().to_vec()).collect::<Vec<_>>()}),
                            });
                        }
                        Some(p)
                    },
                }
            },
            }
        };
        if let Some(p) = &proof {
            let nb = p.to_bytes().len();
            if nb != 1 + 32 * (5 + t + 2 * ((n * m).trailing_zeros() as usize)) {
                out.prove = "badlen".into();
                out.detail = format!("encoded length {} for bits {} aggregation {} degree {}", nb, n, m, t);
                return (out, built);
            }
            mbuilt.proof_bytes = Some(p.to_bytes());
        } else {
            out.prove = "err".into();
        }
        built.push(mbuilt);
        proofs.push(proof);
    }
    if out.prove != "ok" {
        return (out, built);
    }
    // ---- C14: same commitments, different witness: no randomness-derived proof element may be shared ----------
    if sc["samecommit"].as_bool().unwrap_or(false) && built.len() == 2 {
        if built[0].commitments != built[1].commitments || built[0].blinds == built[1].blinds {
            out.prove = "harness".into();
            out.detail = "same-commitment pair was not formed".into();
            return (out, built);
        }
        let a = built[0].proof_bytes.clone().unwrap();
        let b = built[1].proof_bytes.clone().unwrap();
        let t = a[0] as usize;
        let el = |x: &Vec<u8>, i: usize| x[1 + 32 * i..33 + 32 * i].to_vec();
        let mut shared = vec![];
        // A, A1, B, r1, s1 always involve RNG-derived nonces (alpha only without a seed)
        let seeded = built[0].seed.is_some();
        for (name, i) in [("A", t), ("A1", t + 1), ("B", t + 2), ("r1", t + 3), ("s1", t + 4)] {
            if name == "A" && seeded {
                continue; // alpha is seed-derived then and the bits are those of the same value: A legitimately repeats
            }
            if el(&a, i) == el(&b, i) {
                shared.push(name);
            }
        }
        if !shared.is_empty() {
            out.distinct_fail = Some(format!("two runs that differ only in the witness (same commitments, same external RNG stream) share {:?}", shared));
        }
    }

    // ---- encode, alter, decode ------------------------------------------------------------------
    let viabytes = sc["viabytes"].as_bool().unwrap_or(false);
    let pair = sc["pair"].as_bool().unwrap_or(false);
    let orig_proofs: Vec<RangeProof<P>> = if pair { proofs.iter().map(|p| p.clone().unwrap()).collect() } else { vec![] };
    let mut vproofs: Vec<RangeProof<P>> = Vec::new();
    for (mi, mb) in members.iter().enumerate() {
        let p = proofs[mi].take().unwrap();
        let altered = mb["mut"]["kind"].as_str().unwrap() != "none";
        if !altered && !viabytes {
            vproofs.push(p);
            continue;
        }
        let bytes = alter_bytes(&p.to_bytes(), &mb["mut"], ctx.run_seed ^ sidx.wrapping_mul(131) ^ mi as u64);
        match catch_unwind(AssertUnwindSafe(|| RangeProof::<P>::from_bytes(&bytes))) {
            Err(e) => {
                out.verify = "panic".into();
                out.detail = format!("from_bytes panicked: {}", panic_msg(&e));
                return (out, built);
            },
            Ok(Err(_)) => {
                // an unaltered prover output that does not decode is a failed round trip (C15), not a rejection
                out.verify = if altered { "err".into() } else { "roundtrip_fail".into() };
                out.detail = "decode".into();
                return (out, built);
            },
            Ok(Ok(q)) => {
                if q.to_bytes() != bytes {
                    out.verify = "recode".into();
                    out.detail = format!("member {}: decoded proof re-encodes differently", mi);
                    return (out, built);
                }
                if !altered && (q != p || q.extension_degree() as usize != built[mi].t || q.clone() != q) {
                    out.verify = "recode".into();
                    out.detail = format!("member {}: decode(encode(proof)) is not equal to the proof", mi);
                    return (out, built);
                }
                vproofs.push(q)
            },
        }
    }

    // ---- verifier-side statements ---------------------------------------------------------------
    let mut stmts: Vec<RangeStatement<P>> = Vec::new();
    let mut labels: Vec<u64> = Vec::new();
    let mut blind_ref: Vec<Vec<Scalar>> = Vec::new();
    for (mi, mb) in members.iter().enumerate() {
        let v = &mb["v"];
        let b = &built[mi];
        let vn = v["n"].as_u64().unwrap() as usize;
        let vt = v["t"].as_u64().unwrap() as usize;
        let vcap = v["cap"].as_u64().unwrap() as usize;
        let params = match ctx.params(vn, vcap, vt, v["pgH"].as_u64().unwrap(), v["pgG"].as_u64().unwrap()) {
            Ok(p) => p,
            Err(e) => {
                out.verify = "err".into();
                out.detail = format!("verifier-side parameters refused: {}", e);
                return (out, built);
            },
        };
        let mut cs = b.commitments.clone();
        let cj = (v["cj"].as_u64().unwrap() as usize).saturating_sub(1);
        match v["commit"].as_str().unwrap() {
            "same" => {},
            "rand" => cs[cj] = alt_point("commit", sidx ^ mi as u64),
            "swap" => cs.swap(cj, cj + 1),
            "copy" => cs[cj] = cs[cj - 1].clone(), // commitment cj becomes a copy of its left neighbour
            "cache" => {}, // below: only the cached ENCODING of commitment cj is replaced, the point stays
            x => panic!("unknown commit change {}", x),
        }
        let mut st = match RangeStatement::init(params, cs, proms_of(&v["proms"]), seed_scalar(v["seed"].as_u64().unwrap(), ctx.run_seed)) {
            Ok(s) => s,
            Err(e) => {
                out.verify = "harness".into();
                out.detail = format!("RangeStatement::init (verifier side): {}", e);
                return (out, built);
            },
        };
        if v["commit"].as_str() == Some("cache") {
            st.commitments_compressed[cj] = alt_point("commit", sidx ^ mi as u64).compress();
        }
        stmts.push(st);
        labels.push(v["label"].as_u64().unwrap());
        blind_ref.push(b.blinds[0].clone());
    }

    // ---- the unperturbed baseline call of a pair (C04): honest statements, unaltered proofs ----------
    if pair {
        let mut bst = Vec::new();
        for b in &built {
            let params = ctx.params(b.n, b.cap, b.t, 0, 0).unwrap();
            bst.push(RangeStatement::init(params, b.commitments.clone(), b.proms.clone(), b.seed).unwrap());
        }
        if rec.is_some() {
            merlin::trace::start();
            grec_start();
        }
        let mut btr: Vec<Transcript> = built.iter().map(|b| mk_transcript(b.label)).collect();
        let r = catch_unwind(AssertUnwindSafe(|| RangeProof::<P>::verify_batch(&mut btr, &bst, &orig_proofs, VerifyAction::VerifyOnly)));
        let (mev, gev) = if rec.is_some() { (merlin::trace::stop(), grec_stop()) } else { (vec![], Default::default()) };
        let bres = match r {
            Ok(Ok(_)) => "ok",
            Ok(Err(_)) => "err",
            Err(_) => "panic",
        };
        if let Some(r) = rec.as_deref_mut() {
            r.push(CallRec { kind: "verify", merlin: mev, group: gev, info: call_info(&bst, &orig_proofs, &built.iter().map(|b| b.label).collect::<Vec<_>>(), "VerifyOnly", bres, btr.len(), "base", sc) });
        }
    }

    // ---- expansion to the real chunk size --------------------------------------------------------
    let mut pos_of: Vec<usize> = (0..members.len()).collect(); // index of model member x in the real batch
    if let Some((model_mb, real_mb)) = scale {
        if let Some(fill0) = sc["fill"].as_array().and_then(|a| a.first()) {
            // the fillers agree with the FIRST member's verifier-side parameters (bit length, degree, generators), so the
            // real batch is consistent exactly when the model batch is
            let mut fill = fill0.clone();
            let v0 = &members[0]["v"];
            fill["n"] = v0["n"].clone();
            fill["t"] = v0["t"].clone();
            fill["v"]["n"] = v0["n"].clone();
            fill["v"]["t"] = v0["t"].clone();
            let fsc = json!({"members": [fill], "mode": "VerifyOnly", "skew": [0,0,0], "viabytes": false});
            let (fo, fb) = run_scenario(ctx, &fsc, sidx ^ 0xf111, None, None);
            if fo.prove != "ok" {
                out.verify = "harness".into();
                out.detail = "filler could not be proved".into();
                return (out, built);
            }
            let fbytes = fb[0].proof_bytes.clone().unwrap();
            let fparams = ctx.params(fb[0].n, fb[0].cap, fb[0].t, v0["pgH"].as_u64().unwrap_or(0), v0["pgG"].as_u64().unwrap_or(0)).unwrap();
            let fstmt = RangeStatement::init(fparams, fb[0].commitments.clone(), fb[0].proms.clone(), None).unwrap();
            let flabel = fb[0].label;
            let k = members.len();
            let mut s2 = Vec::new();
            let mut p2 = Vec::new();
            let mut l2 = Vec::new();
            let mut b2 = Vec::new();
            let mut x = 0;
            while x < k {
                let hi = (x + model_mb).min(k);
                let len = hi - x;
                // a partial last chunk: exactly one member beyond the boundary when the input lengths are skewed (so the
                // shortest sequence ends exactly on the boundary), a random remainder otherwise
                let skewed = sc["skew"].as_array().map(|a| a.iter().any(|x| x.as_i64() != Some(0))).unwrap_or(false);
                let nfill = if len == model_mb { real_mb - len } else if skewed { 0 } else { rng.next_u32() as usize % (real_mb - model_mb) };
                // the chunk's members keep their order; fillers go before its last member (after it when it is alone)
                for y in x..hi {
                    let fill_here = (len > 1 && y == hi - 1) || false;
                    if fill_here {
                        for _ in 0..nfill {
                            s2.push(fstmt.clone());
                            p2.push(RangeProof::<P>::from_bytes(&fbytes).unwrap());
                            l2.push(flabel);
                            b2.push(vec![]);
                        }
                    }
                    pos_of[y] = s2.len();
                    s2.push(stmts[y].clone());
                    p2.push(vproofs[y].clone());
                    l2.push(labels[y]);
                    b2.push(blind_ref[y].clone());
                    if len == 1 {
                        for _ in 0..nfill {
                            s2.push(fstmt.clone());
                            p2.push(RangeProof::<P>::from_bytes(&fbytes).unwrap());
                            l2.push(flabel);
                            b2.push(vec![]);
                        }
                    }
                }
                x = hi;
            }
            stmts = s2;
            vproofs = p2;
            labels = l2;
            blind_ref = b2;
        }
    }

    // ---- the three input sequences, with the requested length skew -------------------------------
    let skew: Vec<i64> = sc["skew"].as_array().unwrap().iter().map(|x| x.as_i64().unwrap()).collect();
    let k = stmts.len() as i64;
    let resize = |len: i64| -> usize { (k + len).max(0) as usize };
    if rec.is_some() {
        merlin::trace::start();
        grec_start();
    }
    let mut transcripts: Vec<Transcript> = labels.iter().map(|l| mk_transcript(*l)).collect();
    while stmts.len() < resize(skew[0]) {
        stmts.push(stmts.last().unwrap().clone());
    }
    stmts.truncate(resize(skew[0]));
    while vproofs.len() < resize(skew[1]) {
        vproofs.push(vproofs.last().unwrap().clone());
    }
    vproofs.truncate(resize(skew[1]));
    while transcripts.len() < resize(skew[2]) {
        transcripts.push(Transcript::new(label_bytes(0)));
    }
    transcripts.truncate(resize(skew[2]));

    let mode = mode_of(sc["mode"].as_str().unwrap());
    let mut raw_masks: Vec<Option<Vec<Scalar>>> = vec![];
    out.real_len = stmts.len();
    let r = catch_unwind(AssertUnwindSafe(|| RangeProof::<P>::verify_batch(&mut transcripts, &stmts, &vproofs, mode)));
    let (mev, gev) = if rec.is_some() { (merlin::trace::stop(), grec_stop()) } else { (vec![], Default::default()) };
    match r {
        Err(e) => {
            out.verify = "panic".into();
            out.detail = format!("verify_batch panicked: {}", panic_msg(&e));
        },
        Ok(Err(e)) => {
            out.verify = "err".into();
            out.detail = format!("{}", e);
        },
        Ok(Ok(masks)) => {
            out.verify = "ok".into();
            out.nres = masks.len();
            raw_masks = masks.iter().map(|m| m.as_ref().and_then(|mk| mk.blindings().ok())).collect();
            out.masks = (0..members.len())
                .map(|x| match masks.get(pos_of[x]) {
                    Some(mk) => mask_class(mk, &blind_ref[pos_of[x]]),
                    None => "missing".to_string(),
                })
                .collect();
            // fillers never yield a mask
            for (ri, mk) in masks.iter().enumerate() {
                if !pos_of.contains(&ri) && mk.is_some() {
                    out.masks.push(format!("filler{}:some", ri));
                }
            }
        },
    }
    if let Some(r) = rec.as_deref_mut() {
        r.push(CallRec {
            kind: "verify",
            merlin: mev,
            group: gev,
            info: call_info_m(&stmts, &vproofs, &labels, sc["mode"].as_str().unwrap(), &out.verify, transcripts.len(), if pair { "pert" } else { "single" }, sc, &raw_masks),
        });
    }
    out.nres = if out.verify == "ok" { out.nres } else { 0 };
    let _ = ExtensionDegree::try_from(1usize);
    (out, built)
}

/// what the trace emitter needs to know about one verify_batch call
pub fn call_info(stmts: &[RangeStatement<P>], vproofs: &[RangeProof<P>], labels: &[u64], mode: &str, result: &str, ntrans: usize, pair: &str, sc: &Value) -> Value {
    call_info_m(stmts, vproofs, labels, mode, result, ntrans, pair, sc, &[])
}
#[allow(clippy::too_many_arguments)]
pub fn call_info_m(stmts: &[RangeStatement<P>], vproofs: &[RangeProof<P>], labels: &[u64], mode: &str, result: &str, ntrans: usize, pair: &str, sc: &Value, masks: &[Option<Vec<Scalar>>]) -> Value {
    json!({"mode": mode, "result": result,
        "masks": masks.iter().map(|m| m.as_ref().map(|v| v.iter().map(|s| s.as_bytes().to_vec()).collect::<Vec<_>>())).collect::<Vec<_>>(), "nstmts": stmts.len(), "nproofs": vproofs.len(), "ntrans": ntrans, "pair": pair,
        "first": sc["first"].as_u64().unwrap_or(0), "wdiff": sc["wdiff"].as_bool().unwrap_or(false),
        "members": (0..stmts.len().min(vproofs.len())).map(|x| json!({
            "n": stmts[x].generators.bit_length(), "t": stmts[x].generators.extension_degree() as usize,
            "m": stmts[x].commitments.len(), "cap": stmts[x].generators.max_aggregation_factor(),
            "proms": stmts[x].minimum_value_promises.iter().map(|p| p.map(|v| v.to_string())).collect::<Vec<_>>(),
            "label": labels.get(x), "bytes": vproofs[x].to_bytes(),
            // the encodings of the commitment POINTS (not the statement's cached copies: those are what is under test)
            "commits": stmts[x].commitments.iter().map(|c| c.compress().as_fixed_bytes().to_vec()).collect::<Vec<_>>(),
            "H": stmts[x].generators.h_base().compress().as_fixed_bytes().to_vec(),
            "G": stmts[x].generators.g_bases().iter().map(|c| c.compress().as_fixed_bytes().to_vec()).collect::<Vec<_>>(),
            "seeded": stmts[x].seed_nonce.is_some(),
            "seed": stmts[x].seed_nonce.map(|s| s.as_bytes().to_vec()),
        })).collect::<Vec<_>>()})
}

/// Compare an observed outcome with the specification's prediction. None = agrees.
pub fn compare(expect: &Value, out: &Outcome) -> Option<String> {
    if out.prove == "harness" || out.verify == "harness" {
        return Some(format!("HARNESS: {}", out.detail));
    }
    if out.prove == "panic" || out.verify == "panic" {
        return Some(format!("panic: {}", out.detail));
    }
    if out.verify == "recode" {
        return Some(out.detail.clone());
    }
    if let Some(d) = &out.distinct_fail {
        return Some(d.clone());
    }
    if out.verify == "roundtrip_fail" {
        return Some("ROUNDTRIP: from_bytes(to_bytes(proof)) failed for a proof the prover produced".to_string());
    }
    if out.prove == "badlen" {
        return Some(format!("encoded length is not 1 + 32*(5 + d + 2*log2(bits*aggregation)): {}", out.detail));
    }
    let ep = expect["prove"].as_str().unwrap();
    if ep != out.prove {
        return Some(format!("prover: specification predicts {}, library returned {}", ep, out.prove));
    }
    let ev = expect["verify"].as_str().unwrap();
    if ev == "na" || ev == "any" {
        return None;
    }
    if ev != out.verify {
        return Some(format!("verifier: specification predicts {}, library returned {} ({})", ev, out.verify, out.detail));
    }
    if ev == "ok" {
        let em: Vec<String> = expect["masks"].as_array().unwrap().iter().map(|x| x.as_str().unwrap().to_string()).collect();
        let got: Vec<String> = out.masks.iter().take(em.len()).cloned().collect();
        if em != got || out.masks.len() != em.len() {
            return Some(format!("masks: specification predicts {:?}, library returned {:?}", em, out.masks));
        }
        if out.nres != out.real_len {
            return Some(format!("result count: {} results for {} triples", out.nres, out.real_len));
        }
    }
    None
}

// ---------------------------------------------------------------------------------------------------
// constructor / codec cases (C15, C16, C17): one TLC state = one call
// ---------------------------------------------------------------------------------------------------
fn okerr<T, E>(r: &Result<T, E>) -> &'static str {
    if r.is_ok() {
        "ok"
    } else {
        "err"
    }
}

fn noncanonical(kind: u64, base: &[u8; 32]) -> [u8; 32] {
    match kind % 4 {
        0 => L_BYTES, // l itself
        1 => {
            let mut b = L_BYTES; // l + small
            b[0] = b[0].wrapping_add(1 + (kind % 5) as u8);
            b
        },
        2 => {
            let mut b = [0xffu8; 32]; // 2^255 - 1
            b[31] = 0x7f;
            b
        },
        _ => {
            let mut b = *base; // top bit set
            b[31] |= 0x80;
            b
        },
    }
}


fn decode_case(len: usize, fb: u8, nc: usize, kind: u64, seed: u64, idx: u64) -> (String, Option<String>) {
                                                                let mut rng = ChaCha12Rng::seed_from_u64(seed ^ idx.wrapping_mul(0x9e3779b97f4a7c15));
                let mut bytes = Vec::with_capacity(len);
                if len > 0 {
                    bytes.push(fb);
                }
                let mut chunk = 0usize;
                while bytes.len() + 32 <= len {
                    chunk += 1;
                    let mut w = [0u8; 64];
                    rng.fill_bytes(&mut w);
                    let s = Scalar::from_bytes_mod_order_wide(&w).to_bytes();
                    bytes.extend_from_slice(&if chunk == nc { noncanonical(kind, &s) } else { s });
                }
                while bytes.len() < len {
                    bytes.push((rng.next_u32() & 0xff) as u8);
                }
                let r = RangeProof::<P>::from_bytes(&bytes);
                let mut extra = None;
                // serde (bincode: u64 length prefix, then the same bytes) accepts and produces exactly the same strings
                let mut framed = (bytes.len() as u64).to_le_bytes().to_vec();
                framed.extend_from_slice(&bytes);
                let rs: Result<RangeProof<P>, _> = bincode::deserialize(&framed);
                if rs.is_ok() != r.is_ok() {
                    extra = Some(format!("serde form {} a string from_bytes {}", okerr(&rs), okerr(&r)));
                }
                // the same through a reader (a source the deserializer cannot borrow from)
                let rr: Result<RangeProof<P>, _> = bincode::deserialize_from(std::io::Cursor::new(framed.clone()));
                if rr.is_ok() != r.is_ok() {
                    extra = Some(format!("serde form read from a stream {} a string from_bytes {}", okerr(&rr), okerr(&r)));
                }
                if let Ok(p) = &r {
                    if p.to_bytes() != bytes {
                        extra = Some("decoded proof re-encodes to different bytes".to_string());
                    } else if bincode::serialize(p).ok() != Some(framed) {
                        extra = Some("serde encoding differs from to_bytes".to_string());
                    } else if p.extension_degree() as u8 != fb || RangeProof::<P>::extension_degree_from_proof_bytes(&bytes).map(|d| d as u8).ok() != Some(fb) {
                        extra = Some("extension degree getter differs from the tag byte".to_string());
                    } else if let Ok(q) = rs {
                        if q != *p {
                            extra = Some("serde-decoded proof differs from from_bytes".to_string());
                        }
                    }
                }
                (okerr(&r).into(), extra)
            
}

/// Execute one case; returns (observed outcome, optional detail of a secondary mismatch)
pub fn run_case(c: &Value, seed: u64, idx: u64) -> (String, Option<String>) {
    let op = c["op"].as_str().unwrap();
    let u = |k: &str| c[k].as_u64().unwrap() as usize;
    let r = catch_unwind(AssertUnwindSafe(|| -> (String, Option<String>) {
        match op {
            "params" => {
                let r = RangeParameters::<P>::init(u("n"), u("cap"), pedersen_std(1));
                let mut extra = None;
                if let Ok(p) = &r {
                    if p.bit_length() != u("n") || p.max_aggregation_factor() != u("cap") || p.gi_base_iter().count() != u("n") * u("cap") ||
                        p.hi_base_iter().count() != u("n") * u("cap")
                    {
                        extra = Some("getters disagree with the arguments".to_string());
                    }
                }
                (okerr(&r).into(), extra)
            },
            "params_named" => {
                let named = |k: &str| -> usize {
                    match c[k].as_str().unwrap() {
                        "usizemax" => usize::MAX,
                        "two63" => 1usize << 63,
                        "two63_plus1" => (1usize << 63) + 1,
                        "two32" => 1usize << 32,
                        "u32max" => u32::MAX as usize,
                        "aaab" => 0xAAAA_AAAA_AAAA_AAABusize,
                        x => x.parse().unwrap(),
                    }
                };
                let r = RangeParameters::<P>::init(named("nname"), named("cname"), pedersen_std(1));
                (okerr(&r).into(), None)
            },
            "stmt" => {
                let params = RangeParameters::<P>::init(4, u("cap"), pedersen_std(1)).unwrap();
                let cs: Vec<P> = (0..u("m")).map(|j| alt_point("stmt", j as u64)).collect();
                let proms: Vec<Option<u64>> = (0..u("np")).map(|j| if j % 2 == 0 { None } else { Some(j as u64) }).collect();
                let sd = if c["seed"].as_bool().unwrap() {
                    Some(match c["sval"].as_u64().unwrap_or(0) {
                        1 => Scalar::ZERO,
                        2 => -Scalar::ONE,
                        _ => Scalar::from(77u8),
                    })
                } else {
                    None
                };
                let r = RangeStatement::init(params, cs.clone(), proms.clone(), sd);
                let mut extra = None;
                if let Ok(s) = &r {
                    if s.commitments != cs || s.minimum_value_promises != proms || s.seed_nonce != sd || s.commitments_compressed.len() != cs.len() ||
                        s.commitments.iter().zip(s.commitments_compressed.iter()).any(|(p, c)| p.compress().as_fixed_bytes() != c.as_fixed_bytes())
                    {
                        extra = Some("statement fields disagree with the arguments".to_string());
                    }
                }
                (okerr(&r).into(), extra)
            },
            "stmt_verify" => {
                // a statement the constructor lets through must be safe to verify with (C16): an honest proof for the same
                // commitments, then the tested promise count / capacity
                let m = u("m");
                let params = RangeParameters::<P>::init(4, u("cap"), pedersen_std(1)).unwrap();
                let bl: Vec<Vec<Scalar>> = (0..m).map(|j| vec![hash_scalar(&[b"sv", &(j as u64).to_le_bytes()])]).collect();
                let cs: Vec<P> = (0..m).map(|j| params.pc_gens().commit(&Scalar::from(3u64 + j as u64), &bl[j]).unwrap()).collect();
                let honest = RangeStatement::init(params.clone(), cs.clone(), vec![None; m], None).unwrap();
                let w = RangeWitness::init((0..m).map(|j| CommitmentOpening::new(3 + j as u64, bl[j].clone())).collect()).unwrap();
                let mut rng = ChaCha12Rng::seed_from_u64(seed ^ idx);
                let proof = RangeProof::<P>::prove_with_rng(&mut Transcript::new(b"sv"), &honest, &w, &mut rng).unwrap();
                match RangeStatement::init(params, cs, vec![None; u("np")], None) {
                    Err(_) => ("err".into(), None),
                    Ok(st) => {
                        let r = RangeProof::<P>::verify_batch(&mut [Transcript::new(b"sv")], &[st], &[proof], VerifyAction::VerifyOnly);
                        (okerr(&r).into(), None)
                    },
                }
            },
            "decode_scalar" => {
                // a well-formed encoding in which the named scalar slots carry the given 256-bit values (16 limbs of 16 bits, least
                // significant first): a value or an error, and a value re-encodes to exactly its input
                let t = u("t");
                thread_local! { static BASE: std::cell::RefCell<std::collections::HashMap<usize, Vec<u8>>> = std::cell::RefCell::new(Default::default()); }
                let mut bytes = BASE.with(|b| b.borrow_mut().entry(t).or_insert_with(|| {
                    let params = RangeParameters::<P>::init(4, 1, pedersen_std(t)).unwrap();
                    let bl: Vec<Scalar> = (0..t).map(|k| hash_scalar(&[b"ds", &(k as u64).to_le_bytes()])).collect();
                    let cm = params.pc_gens().commit(&Scalar::from(5u64), &bl).unwrap();
                    let st = RangeStatement::init(params, vec![cm], vec![None], None).unwrap();
                    let w = RangeWitness::init(vec![CommitmentOpening::new(5, bl)]).unwrap();
                    let mut rng = ChaCha12Rng::seed_from_u64(77);
                    RangeProof::<P>::prove_with_rng(&mut Transcript::new(b"ds"), &st, &w, &mut rng).unwrap().to_bytes()
                }).clone());
                for sl in c["slots"].as_array().unwrap() {
                    let e = sl["e"].as_u64().unwrap() as usize;
                    for (i, limb) in sl["v"].as_array().unwrap().iter().enumerate() {
                        let x = limb.as_u64().unwrap() as u16;
                        bytes[1 + 32 * e + 2 * i] = (x & 0xff) as u8;
                        bytes[1 + 32 * e + 2 * i + 1] = (x >> 8) as u8;
                    }
                }
                match RangeProof::<P>::from_bytes(&bytes) {
                    Err(_) => ("err".into(), None),
                    Ok(p) => ("ok".into(), if p.to_bytes() == bytes { None } else { Some("a decoded value does not re-encode to its input".to_string()) }),
                }
            },
            "stmt_forge" => {
                // a statement edited after construction (its fields are public): the promise list no longer has one entry per
                // commitment. The independent prover makes the proof most favourable to a verifier that would only look at the
                // commitments that still have a promise entry: it follows the transcript of exactly this statement and treats the
                // other commitments as absent; those commit to a value far outside the range. np = m is the well-formed control.
                let (n, t, m, np) = (u("n"), u("t"), u("m"), u("np"));
                let params = RangeParameters::<P>::init(n, m, pedersen_std(t)).unwrap();
                let bl: Vec<Vec<Scalar>> = (0..m).map(|j| (0..t).map(|k| hash_scalar(&[b"sf", &(j as u64).to_le_bytes(), &(k as u64).to_le_bytes(), &seed.to_le_bytes()])).collect()).collect();
                let maxv = if n >= 64 { u64::MAX } else { (1u64 << n) - 1 };
                // (for 64 bits no value is out of range: there the dropped commitments are simply ones whose opening the prover ignores)
                let real: Vec<u64> = (0..m).map(|j| if j < np { 1 + (j as u64 % maxv) } else { (1u64 << 40) + 3 }).collect();
                let cs: Vec<P> = (0..m).map(|j| params.pc_gens().commit(&Scalar::from(real[j]), &bl[j]).unwrap()).collect();
                let mut st = RangeStatement::init(params, cs, vec![None; m], None).unwrap();
                st.minimum_value_promises = (0..np).map(|j| if j % 2 == 1 { Some(1) } else { None }).collect();
                let fv: Vec<u64> = (0..m).map(|j| if j < np { real[j] } else { 0 }).collect();
                let fb: Vec<Vec<Scalar>> = (0..m).map(|j| if j < np { bl[j].clone() } else { vec![Scalar::ZERO; t] }).collect();
                let bytes = ref_prove(&st, &fv, &fb, b"sf", seed ^ idx);
                match RangeProof::<P>::from_bytes(&bytes) {
                    Err(_) => ("harness".into(), Some("the independent prover's output does not decode".into())),
                    Ok(proof) => {
                        let r = RangeProof::<P>::verify_batch(&mut [Transcript::new(b"sf")], &[st], &[proof], VerifyAction::VerifyOnly);
                        (okerr(&r).into(), None)
                    },
                }
            },
            "wit" => {
                let counts: Vec<usize> = c["counts"].as_array().unwrap().iter().map(|x| x.as_u64().unwrap() as usize).collect();
                let ops: Vec<CommitmentOpening> = counts.iter().map(|n| CommitmentOpening::new(5, vec![Scalar::from(3u8); *n])).collect();
                let r = RangeWitness::init(ops);
                let mut extra = None;
                if let Ok(w) = &r {
                    if w.extension_degree as usize != counts[0] || w.openings.len() != counts.len() {
                        extra = Some("witness degree/length disagree with the arguments".to_string());
                    }
                }
                (okerr(&r).into(), extra)
            },
            "mask" => {
                let bl: Vec<Scalar> = (0..u("len")).map(|i| Scalar::from(10 + i as u64)).collect();
                let r = ExtendedMask::assign(ExtensionDegree::try_from(u("t")).unwrap(), bl.clone());
                let mut extra = None;
                if let Ok(mk) = &r {
                    if mk.blindings().ok() != Some(bl) {
                        extra = Some("mask blindings differ from the arguments".to_string());
                    }
                }
                (okerr(&r).into(), extra)
            },
            "commit" => {
                let pc = pedersen_std(u("t"));
                let v = Scalar::from(12345u64);
                let bl: Vec<Scalar> = (0..u("b")).map(|i| hash_scalar(&[b"commit", &(i as u64).to_le_bytes()])).collect();
                let r = pc.commit(&v, &bl);
                let mut extra = None;
                if let Ok(p) = &r {
                    let mut e = &pc.h_base * v;
                    for (g, b) in pc.g_base_vec.iter().zip(bl.iter()) {
                        e += g * *b;
                    }
                    if *p != e {
                        extra = Some("commitment is not v*H + sum r_k*G_k".to_string());
                    }
                }
                (okerr(&r).into(), extra)
            },
            "commit_values" | "mask_values" => {
                let n = if op == "commit_values" { u("b") } else { u("len") };
                let (zt, hv) = (u("zt"), c["hv"].as_bool().unwrap());
                let bl: Vec<Scalar> = (0..n).map(|i| if i + zt >= n { Scalar::ZERO } else if hv { -Scalar::ONE - Scalar::from(i as u64) } else { hash_scalar(&[b"values", &(i as u64).to_le_bytes()]) }).collect();
                if op == "commit_values" {
                    let r = pedersen_std(u("t")).commit(&Scalar::from(12345u64), &bl);
                    (okerr(&r).into(), None)
                } else {
                    let r = ExtendedMask::assign(ExtensionDegree::try_from(u("t")).unwrap(), bl.clone());
                    let extra = match &r {
                        Ok(mk) if mk.blindings().ok() != Some(bl) => Some("mask blindings differ from the arguments".to_string()),
                        _ => None,
                    };
                    (okerr(&r).into(), extra)
                }
            },
            "commit_edited" => {
                // a generator record edited after construction (its fields are public): `extra` surplus blinding bases beyond the
                // declared extension degree; the bound on the number of blinding factors is the DECLARED degree
                let mut pc = pedersen_std(u("t"));
                for x in 0..u("extra") {
                    let g = alt_point("commit-extra", x as u64 + 1);
                    pc.g_base_compressed_vec.push(g.compress());
                    pc.g_base_vec.push(g);
                }
                let bl: Vec<Scalar> = (0..u("b")).map(|i| hash_scalar(&[b"commit", &(i as u64).to_le_bytes()])).collect();
                let r = pc.commit(&Scalar::from(12345u64), &bl);
                (okerr(&r).into(), None)
            },
            "deg_u8" => {
                let r = ExtensionDegree::try_from(u("v") as u8);
                let extra = r.as_ref().ok().and_then(|d| if *d as usize != u("v") { Some("degree value adjusted".to_string()) } else { None });
                (okerr(&r).into(), extra)
            },
            "deg_usize" => {
                let r = ExtensionDegree::try_from(u("v"));
                let extra = r.as_ref().ok().and_then(|d| if *d as usize != u("v") { Some("degree value adjusted".to_string()) } else { None });
                (okerr(&r).into(), extra)
            },
            "deg_usize_named" => {
                let v: usize = match c["name"].as_str().unwrap() {
                    "u32max" => u32::MAX as usize,
                    "u32max_plus1" => u32::MAX as usize + 1,
                    "u32max_plus2" => u32::MAX as usize + 2,
                    _ => usize::MAX,
                };
                // also the values that alias 1..6 modulo 2^8 and 2^32
                let aliases = [v, 256 + 1, 65536 + 2, (1usize << 32) + 3, usize::MAX - 250];
                let any_ok = aliases.iter().any(|x| ExtensionDegree::try_from(*x).is_ok());
                ((if any_ok { "ok" } else { "err" }).into(), None)
            },
            "rlen" => {
                let o = CommitmentOpening::new(1, vec![Scalar::ONE; u("b")]);
                let r = o.r_len();
                let extra = r.as_ref().ok().and_then(|n| if *n != u("b") { Some("r_len adjusted".to_string()) } else { None });
                (okerr(&r).into(), extra)
            },
            "decode" => {
                // every kind of non-canonical encoding is tried for the chunk the case names
                let kinds: Vec<u64> = if u("nc") == 0 { vec![0] } else { vec![0, 1, 2, 3] };
                let mut first: Option<(String, Option<String>)> = None;
                for kind in kinds {
                    let r = decode_case(u("len"), u("fb") as u8, u("nc"), kind, seed, idx);
                    let exp = c["expect"].as_str().unwrap_or("?");
                    if r.0 != exp || r.1.is_some() {
                        return (r.0, Some(format!("{} [non-canonical kind {}]", r.1.unwrap_or_default(), kind)));
                    }
                    if first.is_none() {
                        first = Some(r);
                    }
                }
                first.unwrap()
            },
            "decode_scale" => {
                // a structurally valid input of `len` bytes against one four times as long: linear work means about 4x the time
                let mk = |nel: usize| -> Vec<u8> {
                    let mut v = vec![1u8];
                    v.resize(1 + 32 * nel, 0u8);
                    v
                };
                let small = mk(6 + 2 * u("k"));
                let big = mk(6 + 2 * 4 * u("k"));
                let t0 = std::time::Instant::now();
                let a = RangeProof::<P>::from_bytes(&small).is_ok();
                let ts = t0.elapsed().as_secs_f64();
                let t1 = std::time::Instant::now();
                let b = RangeProof::<P>::from_bytes(&big).is_ok();
                let tb = t1.elapsed().as_secs_f64();
                // only judged when the larger decode is slow in absolute terms (noise cannot fake both conditions)
                let extra = if tb > 3.0 && tb > 9.0 * ts.max(1e-6) {
                    Some(format!("decoding {} bytes took {:.2} s but {} bytes took {:.2} s: not proportional to the input size", small.len(), ts, big.len(), tb))
                } else if a != b {
                    Some("the two structurally identical inputs were not treated alike".to_string())
                } else {
                    None
                };
                ("nopanic".into(), extra)
            },
            "alloc_bound" => {
                // a batch of honest proofs plus ONE decoded proof with thousands of attached rounds: whatever the verifier reserves
                // before it refuses the batch stays in proportion to the bytes it was handed
                let (nmem, rounds) = (u("members"), u("rounds"));
                let params = RangeParameters::<P>::init(8, 1, pedersen_std(1)).unwrap();
                let mut stmts = Vec::with_capacity(nmem + 1);
                let mut proofs = Vec::with_capacity(nmem + 1);
                let mut input_bytes = 0usize;
                for i in 0..nmem + 1 {
                    let bl = vec![hash_scalar(&[b"ab", &(i as u64).to_le_bytes()])];
                    let cm = params.pc_gens().commit(&Scalar::from(7u64), &bl).unwrap();
                    let st = RangeStatement::init(params.clone(), vec![cm], vec![None], None).unwrap();
                    let w = RangeWitness::init(vec![CommitmentOpening::new(7, bl)]).unwrap();
                    let mut rng = ChaCha12Rng::seed_from_u64(seed ^ i as u64);
                    let mut bytes = RangeProof::<P>::prove_with_rng(&mut Transcript::new(b"ab"), &st, &w, &mut rng).unwrap().to_bytes();
                    if i == nmem / 2 {
                        let pair: Vec<u8> = bytes[bytes.len() - 64..].to_vec();
                        for _ in 0..rounds {
                            bytes.extend_from_slice(&pair);
                        }
                    }
                    input_bytes += bytes.len();
                    proofs.push(RangeProof::<P>::from_bytes(&bytes).unwrap());
                    stmts.push(st);
                }
                let mut trs = vec![Transcript::new(b"ab"); nmem + 1];
                crate::alloc::reset_max_request();
                let r = RangeProof::<P>::verify_batch(&mut trs, &stmts, &proofs, VerifyAction::VerifyOnly);
                let mx = crate::alloc::max_request();
                let extra = if r.is_ok() {
                    Some("a batch holding a proof with surplus rounds was accepted".to_string())
                } else if mx > 16 * input_bytes + (1 << 20) {
                    Some(format!("the verifier asked the allocator for {} bytes at once while holding {} bytes of input ({} members, one with {} surplus rounds)", mx, input_bytes, nmem + 1, rounds))
                } else {
                    None
                };
                ("nopanic".into(), extra)
            },
            "decode_raw" => {
                // uniformly random bytes of the given length: a value or an error, and a value re-encodes to its input
                let len = u("len");
                let mut rng = ChaCha12Rng::seed_from_u64(seed ^ idx.wrapping_mul(0x9e3779b97f4a7c15) ^ 0xdec0de);
                let mut bytes = vec![0u8; len];
                rng.fill_bytes(&mut bytes);
                if len > 0 && u("fbmode") == 1 {
                    bytes[0] = 1 + (bytes[0] % 6);
                }
                let r = RangeProof::<P>::from_bytes(&bytes);
                let extra = match &r {
                    Ok(p) if p.to_bytes() != bytes => Some("decoded proof re-encodes to different bytes".to_string()),
                    _ => None,
                };
                ("nopanic".into(), extra)
            },
            _ => ("harness".into(), Some(format!("unknown op {}", op))),
        }
    }));
    match r {
        Ok(x) => x,
        Err(e) => ("panic".into(), Some(panic_msg(&e))),
    }
}

// ---------------------------------------------------------------------------------------------------
// generators (C11, C12): execute the derivation script printed by TLC from MC_Generators.tla
// ---------------------------------------------------------------------------------------------------
fn script_bytes(v: &Value) -> Vec<u8> {
    v.as_array().unwrap().iter().map(|x| x.as_u64().unwrap() as u8).collect()
}

/// the i-th .. blocks of SHAKE256(prefix || label)
fn chain_from_script(prefix: &[u8], label: &[u8], count: usize) -> Vec<[u8; 64]> {
    use sha3::{
        digest::{ExtendableOutput, Update, XofReader},
        Shake256,
    };
    let mut shake = Shake256::default();
    shake.update(prefix);
    shake.update(label);
    let mut rd = shake.finalize_xof();
    (0..count)
        .map(|_| {
            let mut b = [0u8; 64];
            rd.read(&mut b);
            b
        })
        .collect()
}

pub fn check_generators(script: &Value, n: usize, cap: usize, seed: u64, all_compressed: &mut std::collections::HashMap<[u8; 32], String>) -> Vec<String> {
    use curve25519_dalek::traits::{Identity, VartimeMultiscalarMul, VartimePrecomputedMultiscalarMul};
    use tari_bulletproofs_plus::traits::FromUniformBytes;
    let mut bad = vec![];
    let prefix = script_bytes(&script["prefix"]);
    let params = match RangeParameters::<P>::init(n, cap, pedersen_std(1)) {
        Ok(p) => p,
        Err(e) => return vec![format!("RangeParameters::init({}, {}) failed: {}", n, cap, e)],
    };
    let label = |kind: &str, party: usize| -> Vec<u8> {
        script["labels"].as_array().unwrap().iter().find(|l| l["kind"] == kind && l["party"].as_u64() == Some(party as u64)).map(|l| script_bytes(&l["bytes"])).expect("label in script")
    };
    let mut reference: Vec<P> = Vec::with_capacity(2 * n * cap); // interleaved G, H in aggregated (party-major) order
    let mut ref_g = vec![];
    let mut ref_h = vec![];
    for party in 0..cap {
        let g: Vec<P> = chain_from_script(&prefix, &label("G", party), n).iter().map(|b| P::from_uniform_bytes(b)).collect();
        let h: Vec<P> = chain_from_script(&prefix, &label("H", party), n).iter().map(|b| P::from_uniform_bytes(b)).collect();
        ref_g.extend(g);
        ref_h.extend(h);
    }
    for x in 0..n * cap {
        reference.push(ref_g[x].clone());
        reference.push(ref_h[x].clone());
    }
    let lib_g: Vec<P> = params.gi_base_iter().cloned().collect();
    let lib_h: Vec<P> = params.hi_base_iter().cloned().collect();
    if lib_g.len() != n * cap || lib_h.len() != n * cap {
        bad.push(format!("n={} cap={}: {} G and {} H generators instead of {}", n, cap, lib_g.len(), lib_h.len(), n * cap));
    }
    for x in 0..(n * cap).min(lib_g.len()).min(lib_h.len()) {
        if lib_g[x] != ref_g[x] {
            bad.push(format!("n={} cap={}: G generator (party {}, index {}) is not the documented derivation", n, cap, x / n, x % n));
        }
        if lib_h[x] != ref_h[x] {
            bad.push(format!("n={} cap={}: H generator (party {}, index {}) is not the documented derivation", n, cap, x / n, x % n));
        }
        if bad.len() > 5 {
            break;
        }
    }
    // distinct and not the identity (as encodings), across everything seen in this run
    let idc = *<C as Identity>::identity().as_fixed_bytes();
    for (x, p) in lib_g.iter().enumerate().map(|(x, p)| (format!("G[{}][{}]", x / n, x % n), p)).chain(lib_h.iter().enumerate().map(|(x, p)| (format!("H[{}][{}]", x / n, x % n), p))) {
        let c = *p.compress().as_fixed_bytes();
        if c == idc {
            bad.push(format!("n={} cap={}: generator {} is the identity", n, cap, x));
        }
        if let Some(prev) = all_compressed.get(&c) {
            if *prev != x {
                bad.push(format!("n={} cap={}: generator {} equals generator {}", n, cap, x, prev));
            }
        } else {
            all_compressed.insert(c, x);
        }
    }
    // the precomputed table represents exactly the interleaved generators: random static scalars through the table
    // against a plain multiscalar multiplication over the reference points (3 vectors + unit vectors at both ends)
    let mut rng = ChaCha12Rng::seed_from_u64(seed ^ ((n as u64) << 16) ^ cap as u64);
    let len = 2 * n * cap;
    let mut vectors: Vec<Vec<Scalar>> = (0..3)
        .map(|_| {
            (0..len)
                .map(|_| {
                    let mut w = [0u8; 64];
                    rng.fill_bytes(&mut w);
                    Scalar::from_bytes_mod_order_wide(&w)
                })
                .collect()
        })
        .collect();
    for pos in [0usize, 1, len - 2, len - 1, (rng.next_u32() as usize) % len] {
        let mut u = vec![Scalar::ZERO; len];
        u[pos] = Scalar::ONE;
        vectors.push(u);
    }
    for v in &vectors {
        let r = catch_unwind(AssertUnwindSafe(|| params.precomp().vartime_mixed_multiscalar_mul(v.iter(), std::iter::empty::<Scalar>(), std::iter::empty::<P>())));
        let e = P::vartime_multiscalar_mul(v.iter(), reference.iter());
        match r {
            Ok(p) if p == e => {},
            Ok(_) => {
                bad.push(format!("n={} cap={}: precomputed table does not represent the interleaved generators", n, cap));
                break;
            },
            Err(e) => {
                bad.push(format!("n={} cap={}: precomputed table has the wrong size ({})", n, cap, panic_msg(&e)));
                break;
            },
        }
    }
    bad
}

pub fn gens_fingerprint(n: usize, cap: usize) -> Vec<[u8; 32]> {
    let p = RangeParameters::<P>::init(n, cap, pedersen_std(2)).unwrap();
    p.gi_base_iter().chain(p.hi_base_iter()).map(|x| *x.compress().as_fixed_bytes()).chain(p.g_bases_compressed().iter().map(|c| *c.as_fixed_bytes())).chain(std::iter::once(*p.h_base_compressed().as_fixed_bytes())).collect()
}

// ---------------------------------------------------------------------------------------------------
// An independent prover, written from the protocol description (BPP.tla `Prove`), with NO witness guards:
// it proves whatever it is given.  Used (a) for interoperability (C19), (b) to manufacture proofs the library's
// own prover refuses to make (out-of-range value under a promise that brings the offset back into range, ...).
// Every proof it makes on the free-module group is itself validated by TLC against the specification (TraceProve).
// ---------------------------------------------------------------------------------------------------
fn ref_challenge(tr: &mut Transcript, label: &'static [u8]) -> Scalar {
    let mut buf = [0u8; 64];
    tr.challenge_bytes(label, &mut buf);
    Scalar::from_bytes_mod_order_wide(&buf)
}

pub fn ref_prove(stmt: &RangeStatement<P>, vals: &[u64], blinds: &[Vec<Scalar>], label: &'static [u8], rng_seed: u64) -> Vec<u8> {
    use curve25519_dalek::traits::{Identity, MultiscalarMul};
    let n = stmt.generators.bit_length();
    let m = stmt.commitments.len();
    let t = stmt.generators.extension_degree() as usize;
    let nm = n * m;
    let k = nm.trailing_zeros() as usize;
    let gk: Vec<P> = stmt.generators.g_bases().to_vec();
    let h = stmt.generators.h_base().clone();
    let mut gs: Vec<P> = stmt.generators.gi_base_iter().take(nm).cloned().collect();
    let mut hs: Vec<P> = stmt.generators.hi_base_iter().take(nm).cloned().collect();
    let mut rng = ChaCha12Rng::seed_from_u64(rng_seed);
    let draw = |rng: &mut ChaCha12Rng| -> Scalar {
        let mut w = [0u8; 64];
        rng.fill_bytes(&mut w);
        Scalar::from_bytes_mod_order_wide(&w)
    };
    let seeded = |lbl: &str, j: Option<u32>, kk: usize| -> Option<Scalar> { stmt.seed_nonce.map(|s| crate::trace::ref_nonce(&s, lbl, j, Some(kk as u32))) };
    // transcript prefix
    let mut tr = Transcript::new(label);
    tr.append_message(b"dom-sep", b"Bulletproofs+ Range Proof");
    tr.append_message(b"H", h.compress().as_fixed_bytes());
    for g in &gk {
        tr.append_message(b"G", g.compress().as_fixed_bytes());
    }
    tr.append_u64(b"N", n as u64);
    tr.append_u64(b"T", t as u64);
    tr.append_u64(b"M", m as u64);
    for c in &stmt.commitments {
        tr.append_message(b"Ci", c.compress().as_fixed_bytes());
    }
    for p in &stmt.minimum_value_promises {
        tr.append_u64(b"vi - minimum_value", p.unwrap_or(0));
    }
    // bits of (value - promise), whatever they are
    let mut a: Vec<Scalar> = Vec::with_capacity(nm);
    let mut b: Vec<Scalar> = Vec::with_capacity(nm);
    for j in 0..m {
        let off = vals[j].wrapping_sub(stmt.minimum_value_promises.get(j).copied().flatten().unwrap_or(0));
        for i in 0..n {
            let bit = (off >> i) & 1;
            a.push(Scalar::from(bit));
            b.push(Scalar::from(bit) - Scalar::ONE);
        }
    }
    let mut alpha: Vec<Scalar> = (0..t).map(|kk| seeded("alpha", None, kk).unwrap_or_else(|| draw(&mut rng))).collect();
    let mut big_a = P::identity();
    for kk in 0..t {
        big_a += &gk[kk] * alpha[kk];
    }
    for i in 0..nm {
        big_a += &gs[i] * a[i];
        big_a += &hs[i] * b[i];
    }
    tr.append_message(b"A", big_a.compress().as_fixed_bytes());
    let y = ref_challenge(&mut tr, b"y");
    let z = ref_challenge(&mut tr, b"z");
    let z2 = z * z;
    let mut ypow = vec![Scalar::ONE; nm + 2];
    for i in 1..nm + 2 {
        ypow[i] = ypow[i - 1] * y;
    }
    let yinv = y.invert();
    // d_i = z^(2(j+1)) * 2^b
    let mut d = vec![Scalar::ZERO; nm];
    let mut zp = Scalar::ONE;
    for j in 0..m {
        zp *= z2;
        let mut two = Scalar::ONE;
        for i in 0..n {
            d[j * n + i] = zp * two;
            two = two + two;
        }
    }
    for i in 0..nm {
        a[i] -= z;
        b[i] += d[i] * ypow[nm - i] + z;
    }
    let mut zp = Scalar::ONE;
    for j in 0..m {
        zp *= z2;
        for kk in 0..t {
            alpha[kk] += zp * blinds[j][kk] * ypow[nm + 1];
        }
    }
    // folding rounds
    let mut ls = vec![];
    let mut rs = vec![];
    let mut len = nm;
    for round in 0..k {
        let nn = len / 2;
        let yn = ypow[nn];
        let yni = {
            let mut x = Scalar::ONE;
            for _ in 0..nn {
                x *= yinv;
            }
            x
        };
        let dl: Vec<Scalar> = (0..t).map(|kk| seeded("dL", Some(round as u32), kk).unwrap_or_else(|| draw(&mut rng))).collect();
        let dr: Vec<Scalar> = (0..t).map(|kk| seeded("dR", Some(round as u32), kk).unwrap_or_else(|| draw(&mut rng))).collect();
        let mut cl = Scalar::ZERO;
        let mut cr = Scalar::ZERO;
        for i in 0..nn {
            cl += a[i] * ypow[i + 1] * b[nn + i];
            cr += a[nn + i] * ypow[nn + i + 1] * b[i];
        }
        let mut l = &h * cl;
        let mut r = &h * cr;
        for kk in 0..t {
            l += &gk[kk] * dl[kk];
            r += &gk[kk] * dr[kk];
        }
        for i in 0..nn {
            l += &gs[nn + i] * (a[i] * yni);
            l += &hs[i] * b[nn + i];
            r += &gs[i] * (a[nn + i] * yn);
            r += &hs[nn + i] * b[i];
        }
        tr.append_message(b"L", l.compress().as_fixed_bytes());
        tr.append_message(b"R", r.compress().as_fixed_bytes());
        let e = ref_challenge(&mut tr, b"e");
        let ei = e.invert();
        let mut a2 = vec![];
        let mut b2 = vec![];
        let mut g2 = vec![];
        let mut h2 = vec![];
        for i in 0..nn {
            a2.push(a[i] * e + a[nn + i] * yn * ei);
            b2.push(b[i] * ei + b[nn + i] * e);
            g2.push(&(&gs[i] * ei) + &(&gs[nn + i] * (e * yni)));
            h2.push(&(&hs[i] * e) + &(&hs[nn + i] * ei));
        }
        a = a2;
        b = b2;
        gs = g2;
        hs = h2;
        for kk in 0..t {
            alpha[kk] += dl[kk] * e * e + dr[kk] * ei * ei;
        }
        ls.push(l);
        rs.push(r);
        len = nn;
    }
    let r = draw(&mut rng);
    let s = draw(&mut rng);
    let dd: Vec<Scalar> = (0..t).map(|kk| seeded("d", None, kk).unwrap_or_else(|| draw(&mut rng))).collect();
    let eta: Vec<Scalar> = (0..t).map(|kk| seeded("eta", None, kk).unwrap_or_else(|| draw(&mut rng))).collect();
    let mut a1 = &(&gs[0] * r) + &(&hs[0] * s);
    a1 += &h * (r * y * b[0] + s * y * a[0]);
    let mut bb = &h * (r * y * s);
    for kk in 0..t {
        a1 += &gk[kk] * dd[kk];
        bb += &gk[kk] * eta[kk];
    }
    tr.append_message(b"A1", a1.compress().as_fixed_bytes());
    tr.append_message(b"B", bb.compress().as_fixed_bytes());
    let e = ref_challenge(&mut tr, b"e");
    let r1 = r + a[0] * e;
    let s1 = s + b[0] * e;
    let d1: Vec<Scalar> = (0..t).map(|kk| eta[kk] + dd[kk] * e + alpha[kk] * e * e).collect();
    let mut out = vec![t as u8];
    for x in &d1 {
        out.extend_from_slice(x.as_bytes());
    }
    out.extend_from_slice(big_a.compress().as_fixed_bytes());
    out.extend_from_slice(a1.compress().as_fixed_bytes());
    out.extend_from_slice(bb.compress().as_fixed_bytes());
    out.extend_from_slice(r1.as_bytes());
    out.extend_from_slice(s1.as_bytes());
    for (l, r) in ls.iter().zip(rs.iter()) {
        out.extend_from_slice(l.compress().as_fixed_bytes());
        out.extend_from_slice(r.compress().as_fixed_bytes());
    }
    let _ = <P as MultiscalarMul>::multiscalar_mul(std::iter::empty::<Scalar>(), std::iter::empty::<P>());
    out
}


// ---------------------------------------------------------------------------------------------------
// decoder traces (C15, impl -> spec): structured transformations of well-formed encodings
// ---------------------------------------------------------------------------------------------------
fn well_formed(t: usize, k: usize, rng: &mut ChaCha12Rng) -> Vec<u8> {
    let mut v = vec![t as u8];
    for _ in 0..(t + 5 + 2 * k) {
        let mut w = [0u8; 64];
        rng.fill_bytes(&mut w);
        v.extend_from_slice(&Scalar::from_bytes_mod_order_wide(&w).to_bytes());
    }
    v
}

pub fn codec_trace(seed: u64, count: usize) -> Vec<Value> {
    let mut rng = ChaCha12Rng::seed_from_u64(seed ^ 0xc0dec);
    let mut out = vec![];
    let push = |bytes: Vec<u8>, how: &str, out: &mut Vec<Value>| {
        let r = RangeProof::<P>::from_bytes(&bytes);
        let nch = if bytes.is_empty() { 0 } else { (bytes.len() - 1) / 32 };
        let noncanon: Vec<usize> = (0..nch)
            .filter(|i| {
                let mut a = [0u8; 32];
                a.copy_from_slice(&bytes[1 + 32 * i..33 + 32 * i]);
                Option::<Scalar>::from(Scalar::from_canonical_bytes(a)).is_none()
            })
            .map(|i| i + 1)
            .collect();
        let mut framed = (bytes.len() as u64).to_le_bytes().to_vec();
        framed.extend_from_slice(&bytes);
        let s1: Result<RangeProof<P>, _> = bincode::deserialize(&framed);
        let s2: Result<RangeProof<P>, _> = bincode::deserialize_from(std::io::Cursor::new(framed.clone()));
        let reenc = match &r {
            Ok(p) => p.to_bytes() == bytes && bincode::serialize(p).ok() == Some(framed.clone()),
            Err(_) => false,
        };
        let n = out.len();
        out.push(json!({"ev": "Decode", "scen": n, "how": how, "len": bytes.len(), "fb": bytes.first().copied().unwrap_or(0), "noncanon": noncanon,
            "accepted": r.is_ok(), "reencodes": reenc, "serde_slice": s1.is_ok(), "serde_stream": s2.is_ok()}));
    };
    for i in 0..count {
        let t = 1 + (i % 6);
        let k = [1usize, 1, 2, 3, 6, 7, 12, 40, 130][i % 9];
        let base = well_formed(t, k, &mut rng);
        push(base.clone(), "well-formed", &mut out);
        // the tag byte moved to the end (rotation left by one byte), and the reverse rotation
        let mut v = base[1..].to_vec();
        v.push(base[0]);
        push(v, "rotate-left", &mut out);
        let mut v = vec![*base.last().unwrap()];
        v.extend_from_slice(&base[..base.len() - 1]);
        push(v, "rotate-right", &mut out);
        // same, but arranged so that the byte arriving in front is itself a plausible tag
        let mut b2 = base.clone();
        b2[1] = 1 + (rng.next_u32() % 6) as u8;
        let mut v = b2[1..].to_vec();
        v.push(b2[0]);
        push(v, "rotate-left-plausible", &mut out);
        // tag duplicated, tag dropped, elements reversed, whole string reversed
        let mut v = vec![base[0]];
        v.extend_from_slice(&base);
        push(v, "tag-duplicated", &mut out);
        push(base[1..].to_vec(), "tag-dropped", &mut out);
        let mut v = vec![base[0]];
        for c in base[1..].chunks(32).rev() {
            v.extend_from_slice(c);
        }
        push(v, "elements-reversed", &mut out);
        let mut v = base.clone();
        v.reverse();
        push(v, "bytes-reversed", &mut out);
        // one element dropped / one appended / last pair dropped
        let cut = 1 + 32 * (rng.next_u32() as usize % (t + 5 + 2 * k));
        let mut v = base[..cut].to_vec();
        v.extend_from_slice(&base[cut + 32..]);
        push(v, "element-dropped", &mut out);
        let mut v = base.clone();
        v.extend_from_slice(&base[1..33]);
        push(v, "element-appended", &mut out);
        push(base[..base.len() - 64].to_vec(), "pair-dropped", &mut out);
        // a non-canonical encoding planted at a random chunk (scalar or point slot), of each kind
        for kind in 0..4u64 {
            let slot = rng.next_u32() as usize % (t + 5 + 2 * k);
            let mut v = base.clone();
            let mut cur = [0u8; 32];
            cur.copy_from_slice(&v[1 + 32 * slot..33 + 32 * slot]);
            v[1 + 32 * slot..33 + 32 * slot].copy_from_slice(&noncanonical(kind, &cur));
            push(v, "noncanonical-planted", &mut out);
        }
        // another tag in front of the same body
        let mut v = base.clone();
        v[0] = [0u8, 7, 8, 255, ((t % 6) + 1) as u8][i % 5];
        push(v, "tag-replaced", &mut out);
        // random bytes of a well-formed length
        let mut v = vec![0u8; base.len()];
        rng.fill_bytes(&mut v);
        v[0] = 1 + (v[0] % 6);
        push(v, "random-with-plausible-tag", &mut out);
    }
    out
}
