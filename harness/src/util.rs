//! Shared helpers: limbs, tokens, RNG fault models, u64 from 16-bit limbs.

use std::collections::HashMap;

use curve25519_dalek::scalar::Scalar;
use rand_chacha::ChaCha12Rng;
use rand_core::{CryptoRng, RngCore, SeedableRng};
use serde_json::{json, Value};
use sha3::{Digest, Sha3_512};

/// little-endian base-4096 limbs of a byte string
pub fn limbs(bytes: &[u8], n: usize) -> Vec<u32> {
    let mut v = Vec::with_capacity(n);
    for i in 0..n {
        let bit = 12 * i;
        let mut x: u32 = 0;
        for b in 0..12 {
            let p = bit + b;
            if p / 8 < bytes.len() && (bytes[p / 8] >> (p % 8)) & 1 == 1 {
                x |= 1 << b;
            }
        }
        v.push(x);
    }
    v
}
/// a canonical scalar as 22 limbs
pub fn sl(s: &Scalar) -> Value {
    json!(limbs(s.as_bytes(), 22))
}
/// 32 raw bytes as 22 limbs (may be non-canonical)
pub fn bl(b: &[u8]) -> Value {
    json!(limbs(b, 22))
}
/// 64 bytes as 43 limbs (reduced mod l by the specification, not here)
pub fn wl(b: &[u8]) -> Value {
    json!(limbs(b, 43))
}

pub fn u64_from_limbs(v: &Value) -> Option<u64> {
    let a = v.as_array()?;
    if a.len() != 4 {
        return None;
    }
    let mut x: u64 = 0;
    for (i, l) in a.iter().enumerate() {
        x |= (l.as_u64()? & 0xffff) << (16 * i);
    }
    Some(x)
}

/// equality-class tokens for byte strings (first appearance order), 1-based
#[derive(Default)]
pub struct Toks {
    map: HashMap<Vec<u8>, u32>,
}
impl Toks {
    pub fn tok(&mut self, b: &[u8]) -> u32 {
        let n = self.map.len() as u32 + 1;
        *self.map.entry(b.to_vec()).or_insert(n)
    }

    pub fn get(&self, b: &[u8]) -> Option<u32> {
        self.map.get(b).copied()
    }
}

pub fn hash64(parts: &[&[u8]]) -> [u8; 64] {
    let mut h = Sha3_512::new();
    for p in parts {
        h.update((p.len() as u64).to_le_bytes());
        h.update(p);
    }
    h.finalize().into()
}
pub fn hash_scalar(parts: &[&[u8]]) -> Scalar {
    Scalar::from_bytes_mod_order_wide(&hash64(parts))
}

/// External RNG fault models (C14): what the caller hands to `prove_with_rng`.
pub enum RngModel {
    ChaCha(ChaCha12Rng),
    Zero,
    Const(u8),
    Counter(u64),
    Period2(bool),
    /// replays a recorded byte stream, then zeros
    Replay(Vec<u8>, usize),
    /// a generator that REPORTS its failure: `try_fill_bytes` returns an error (and leaves zeros), `fill_bytes` yields zeros
    Fail,
}
impl RngModel {
    pub fn new(kind: &str, seed: u64) -> RngModel {
        match kind {
            "chacha" => RngModel::ChaCha(ChaCha12Rng::seed_from_u64(seed)),
            "zero" => RngModel::Zero,
            "const" => RngModel::Const(0x5a),
            "ctr" => RngModel::Counter(0),
            "p2" => RngModel::Period2(false),
            "fail" => RngModel::Fail,
            _ => panic!("unknown rng model {}", kind),
        }
    }
}
impl RngCore for RngModel {
    fn next_u32(&mut self) -> u32 {
        rand_core::impls::next_u32_via_fill(self)
    }

    fn next_u64(&mut self) -> u64 {
        rand_core::impls::next_u64_via_fill(self)
    }

    fn fill_bytes(&mut self, dest: &mut [u8]) {
        match self {
            RngModel::ChaCha(r) => r.fill_bytes(dest),
            RngModel::Zero | RngModel::Fail => dest.iter_mut().for_each(|b| *b = 0),
            RngModel::Const(c) => dest.iter_mut().for_each(|b| *b = *c),
            RngModel::Counter(c) => {
                for b in dest.iter_mut() {
                    *b = (*c & 0xff) as u8;
                    *c += 1;
                }
            },
            RngModel::Period2(f) => {
                let v = if *f { 0xa5 } else { 0x3c };
                dest.iter_mut().for_each(|b| *b = v);
                *f = !*f;
            },
            RngModel::Replay(buf, pos) => {
                for b in dest.iter_mut() {
                    *b = if *pos < buf.len() { buf[*pos] } else { 0 };
                    *pos += 1;
                }
            },
        }
    }

    fn try_fill_bytes(&mut self, dest: &mut [u8]) -> Result<(), rand_core::Error> {
        self.fill_bytes(dest);
        if matches!(self, RngModel::Fail) {
            return Err(rand_core::Error::from(core::num::NonZeroU32::new(rand_core::Error::CUSTOM_START + 7).unwrap()));
        }
        Ok(())
    }
}
impl CryptoRng for RngModel {}

pub fn panic_msg(e: &Box<dyn std::any::Any + Send>) -> String {
    if let Some(s) = e.downcast_ref::<&str>() {
        s.to_string()
    } else if let Some(s) = e.downcast_ref::<String>() {
        s.clone()
    } else {
        "panic".to_string()
    }
}
