//! I4 — tracing global allocator: while armed, every block handed back to the allocator (dealloc, or the old block of
//! a realloc) is scanned for the byte patterns of the current scenario's secrets; what was found is recorded in a
//! fixed-size static log (the allocator itself never allocates).

use std::{
    alloc::{GlobalAlloc, Layout, System},
    cell::UnsafeCell,
    sync::atomic::{AtomicBool, AtomicUsize, Ordering},
};

pub const MAX_PATTERNS: usize = 64;
pub const MAX_EVENTS: usize = 1 << 19;

pub struct Pattern {
    pub len: usize,
    pub bytes: [u8; 32],
}
pub struct Tables {
    patterns: UnsafeCell<[Pattern; MAX_PATTERNS]>,
    events: UnsafeCell<[(u32, u64); MAX_EVENTS]>, // (block size, taint bit mask)
}
unsafe impl Sync for Tables {}
const EMPTY: Pattern = Pattern { len: 0, bytes: [0u8; 32] };
static TABLES: Tables = Tables { patterns: UnsafeCell::new([EMPTY; MAX_PATTERNS]), events: UnsafeCell::new([(0, 0); MAX_EVENTS]) };
static NPAT: AtomicUsize = AtomicUsize::new(0);
static NEV: AtomicUsize = AtomicUsize::new(0);
static ARMED: AtomicBool = AtomicBool::new(false);
static TOTAL: AtomicUsize = AtomicUsize::new(0);
/// the largest single request seen since the last reset (C16: no allocation out of proportion to the input)
static MAXREQ: AtomicUsize = AtomicUsize::new(0);
pub fn reset_max_request() {
    MAXREQ.store(0, Ordering::Relaxed);
}
pub fn max_request() -> usize {
    MAXREQ.load(Ordering::Relaxed)
}

pub struct TracingAlloc;

unsafe fn scan(ptr: *const u8, size: usize) -> u64 {
    let np = NPAT.load(Ordering::Relaxed);
    let pats = &*TABLES.patterns.get();
    let block = std::slice::from_raw_parts(ptr, size);
    let mut mask = 0u64;
    for (i, p) in pats.iter().enumerate().take(np) {
        if p.len == 0 || size < p.len {
            continue;
        }
        let needle = &p.bytes[..p.len];
        let first = needle[0];
        let mut j = 0;
        while j + p.len <= size {
            if block[j] == first && &block[j..j + p.len] == needle {
                mask |= 1 << i;
                break;
            }
            j += 1;
        }
    }
    mask
}

unsafe fn record(ptr: *const u8, size: usize) {
    if !ARMED.load(Ordering::Relaxed) {
        return;
    }
    TOTAL.fetch_add(1, Ordering::Relaxed);
    let mask = scan(ptr, size);
    let i = NEV.fetch_add(1, Ordering::Relaxed);
    if i < MAX_EVENTS {
        (*TABLES.events.get())[i] = (size as u32, mask);
    }
}

unsafe impl GlobalAlloc for TracingAlloc {
    unsafe fn alloc(&self, l: Layout) -> *mut u8 {
        MAXREQ.fetch_max(l.size(), Ordering::Relaxed);
        let p = System.alloc(l);
        // while armed, fresh blocks are cleared: what a block holds when it is released must have been WRITTEN there during the
        // section, not be left over from an earlier owner of the same memory (e.g. an unwiped reallocation of the harness itself)
        if !p.is_null() && ARMED.load(Ordering::Relaxed) {
            std::ptr::write_bytes(p, 0, l.size());
        }
        p
    }

    unsafe fn dealloc(&self, p: *mut u8, l: Layout) {
        record(p, l.size());
        System.dealloc(p, l)
    }

    unsafe fn realloc(&self, p: *mut u8, l: Layout, new_size: usize) -> *mut u8 {
        // the old block may be released (or truncated) by the system allocator: what it holds now is what leaks
        record(p, l.size());
        MAXREQ.fetch_max(new_size, Ordering::Relaxed);
        let q = System.realloc(p, l, new_size);
        if !q.is_null() && new_size > l.size() && ARMED.load(Ordering::Relaxed) {
            std::ptr::write_bytes(q.add(l.size()), 0, new_size - l.size());
        }
        q
    }
}

/// Set the secrets to look for (clears the log). Not armed yet.
pub fn set_patterns(pats: &[Vec<u8>]) {
    assert!(!ARMED.load(Ordering::SeqCst));
    assert!(pats.len() <= MAX_PATTERNS);
    unsafe {
        let t = &mut *TABLES.patterns.get();
        for (i, p) in pats.iter().enumerate() {
            assert!(p.len() <= 32 && p.len() >= 8);
            t[i].len = p.len();
            t[i].bytes[..p.len()].copy_from_slice(p);
        }
    }
    NPAT.store(pats.len(), Ordering::SeqCst);
    NEV.store(0, Ordering::SeqCst);
    TOTAL.store(0, Ordering::SeqCst);
}
pub fn arm() {
    ARMED.store(true, Ordering::SeqCst);
}
pub fn disarm() {
    ARMED.store(false, Ordering::SeqCst);
}
/// the recorded frees (size, taint mask) since `set_patterns`
pub fn events() -> Vec<(u32, u64)> {
    assert!(!ARMED.load(Ordering::SeqCst));
    let n = NEV.load(Ordering::SeqCst).min(MAX_EVENTS);
    unsafe { (&(*TABLES.events.get()))[..n].to_vec() }
}
pub fn total_frees() -> usize {
    TOTAL.load(Ordering::SeqCst)
}
/// scan an arbitrary memory region (used for the inline statement seed after drop_in_place)
pub unsafe fn scan_region(ptr: *const u8, size: usize) -> u64 {
    scan(ptr, size)
}
