//! Turn what was recorded around library calls on the free-module group (instrumented merlin events,
//! group events at the trait boundary) into ndjson trace events for the TLA+ trace specifications.
//! The harness only *projects* recorded data (tokens, limbs, per-role sums); every comparison with
//! the protocol is made by TLC in Trace*.tla.

use std::collections::HashMap;

use curve25519_dalek::scalar::Scalar;
use merlin::trace::Ev;
use serde_json::{json, Value};
use tari_bulletproofs_plus::traits::Compressable;

use crate::{
    fm::{self, GEv, MixedEvent, FP},
    fmx::CallRec,
    refgens,
    util::*,
};

fn lab(l: &[u8]) -> String {
    String::from_utf8_lossy(l).to_string()
}

fn u64_limbs16(b: &[u8]) -> Value {
    let mut x = [0u8; 8];
    x.copy_from_slice(&b[..8]);
    let v = u64::from_le_bytes(x);
    json!([(v & 0xffff), ((v >> 16) & 0xffff), ((v >> 32) & 0xffff), ((v >> 48) & 0xffff)])
}

/// merlin events -> trace events (byte strings become tokens; 8-byte data also carries its u64 value,
/// 64-byte outputs their 43 limbs)
pub fn merlin_events(evs: &[Ev], toks: &mut Toks, out: &mut Vec<Value>) {
    for e in evs {
        out.push(match e {
            Ev::TNew { tid, label } => json!({"ev": "TNew", "tid": tid, "label": lab(label), "ltok": toks.tok(label)}),
            Ev::TClone { tid, from } => json!({"ev": "TClone", "tid": tid, "from": from}),
            Ev::TAppend { tid, label, data } => {
                let printable = !data.is_empty() && data.len() <= 64 && data.iter().all(|b| (0x20..0x7f).contains(b));
                json!({"ev": "TAppend", "tid": tid, "label": lab(label), "len": data.len(), "tok": toks.tok(data),
                    "u64": if data.len() == 8 { u64_limbs16(data) } else { json!([]) },
                    "str": if printable { lab(data) } else { String::new() }})
            },
            Ev::TChal { tid, label, out } => {
                let (wide, inv) = if out.len() == 64 {
                    let mut a = [0u8; 64];
                    a.copy_from_slice(out);
                    // claimed inverse of the reduced challenge; TLC checks it with one multiplication
                    (wl(out), sl(&inv_or_zero(&Scalar::from_bytes_mod_order_wide(&a))))
                } else {
                    (json!([]), json!([]))
                };
                json!({"ev": "TChal", "tid": tid, "label": lab(label), "len": out.len(), "tok": toks.tok(out), "wide": wide, "inv": inv})
            },
            Ev::RBuild { rid, tid } => json!({"ev": "RBuild", "rid": rid, "tid": tid}),
            Ev::RRekey { rid, label, data } => json!({"ev": "RRekey", "rid": rid, "label": lab(label), "len": data.len(), "tok": toks.tok(data)}),
            Ev::RFinal { rid, ext } => json!({"ev": "RFinal", "rid": rid, "tok": toks.tok(ext), "zero": ext.iter().all(|b| *b == 0)}),
            Ev::RFill { rid, out } => json!({"ev": "RFill", "rid": rid, "len": out.len(), "tok": toks.tok(out),
                "wide": if out.len() == 64 { wl(out) } else { json!([]) },
                "u64": if out.len() == 8 { u64_limbs16(out) } else { json!([]) }}),
        });
    }
}

pub struct ProofParts {
    pub t: usize,
    pub k: usize,
    pub el: Vec<[u8; 32]>,
}
pub fn parse_proof(bytes: &[u8]) -> ProofParts {
    let t = bytes[0] as usize;
    let ne = (bytes.len() - 1) / 32;
    let el: Vec<[u8; 32]> = (0..ne)
        .map(|i| {
            let mut a = [0u8; 32];
            a.copy_from_slice(&bytes[1 + 32 * i..33 + 32 * i]);
            a
        })
        .collect();
    ProofParts { t, k: (ne - 5 - t) / 2, el }
}
impl ProofParts {
    pub fn d1(&self, k: usize) -> [u8; 32] {
        self.el[k]
    }

    pub fn a(&self) -> [u8; 32] {
        self.el[self.t]
    }

    pub fn a1(&self) -> [u8; 32] {
        self.el[self.t + 1]
    }

    pub fn b(&self) -> [u8; 32] {
        self.el[self.t + 2]
    }

    pub fn r1(&self) -> [u8; 32] {
        self.el[self.t + 3]
    }

    pub fn s1(&self) -> [u8; 32] {
        self.el[self.t + 4]
    }

    pub fn l(&self, j: usize) -> [u8; 32] {
        self.el[self.t + 5 + 2 * j]
    }

    pub fn r(&self, j: usize) -> [u8; 32] {
        self.el[self.t + 6 + 2 * j]
    }
}

fn bytes32(v: &Value) -> [u8; 32] {
    let mut a = [0u8; 32];
    for (i, x) in v.as_array().unwrap().iter().enumerate() {
        a[i] = x.as_u64().unwrap() as u8;
    }
    a
}

fn inv_or_zero(s: &Scalar) -> Scalar {
    if *s == Scalar::ZERO {
        Scalar::ZERO
    } else {
        s.invert()
    }
}

/// role of a precomputation-table entry, by independent derivation of the generator chain
fn table_role(p: &FP, roles: &HashMap<u32, (u8, u32, u32)>) -> Value {
    match p.as_unit().and_then(|id| roles.get(&id)) {
        Some((kind, party, i)) => json!([if *kind == b'G' { "Gi" } else { "Hi" }, party, i]),
        None => json!(["?", 0, 0]),
    }
}

/// Emit the trace of one verify_batch call. Returns false when the call is not suitable for arithmetic validation
/// (a point shared between roles), in which case only the transcript part is emitted.
pub fn verify_trace(rec: &CallRec, toks: &mut Toks, arith: bool, out: &mut Vec<Value>) {
    // An accepted batch above the chunk limit is several verifications, one per chunk, each with its own
    // weights and its own final check: one implementation call = several specification calls. The recorded events are
    // split by chunk (transcript operations by time window, final checks in order) and every chunk is emitted as a call.
    let info = &rec.info;
    let np = info["members"].as_array().map(|a| a.len()).unwrap_or(0);
    let ntrans = info["ntrans"].as_u64().unwrap_or(0) as usize;
    let mixed_pos: Vec<usize> = rec.group.iter().enumerate().filter(|(_, g)| matches!(g, GEv::Mixed(_))).map(|(i, _)| i).collect();
    let nch = mixed_pos.len();
    // how many members each chunk holds is read off the recording, not assumed: every chunk has its own weight transcript
    // (created by the library), to which each of its members contributes once after the transcript's own label
    let caller_all: Vec<(usize, u64)> = rec.merlin.iter().enumerate().filter_map(|(i, e)| if let Ev::TNew { tid, .. } = e { Some((i, *tid)) } else { None }).collect();
    let mut sizes: Vec<usize> = vec![];
    if caller_all.len() >= ntrans {
        for (_, w) in caller_all.iter().skip(ntrans) {
            let appends = rec.merlin.iter().filter(|e| matches!(e, Ev::TAppend { tid, .. } if tid == w)).count();
            sizes.push(appends.saturating_sub(1));
        }
    }
    if !(sizes.len() == nch && sizes.iter().sum::<usize>() == np && sizes.iter().all(|s| *s > 0)) {
        sizes.clear();
    }
    let bounds: Vec<(usize, usize)> = sizes.iter().scan(0usize, |acc, s| { let lo = *acc; *acc += s; Some((lo, *acc)) }).collect();
    if nch >= 2 && !bounds.is_empty() && info["result"] == "ok" && info["nstmts"].as_u64() == Some(np as u64) && info["nproofs"].as_u64() == Some(np as u64) && ntrans == np {
        let caller: Vec<(usize, u64)> = caller_all.iter().take(ntrans).cloned().collect();
        let chunk_of: HashMap<u64, usize> = caller.iter().enumerate().map(|(x, (_, t))| (*t, bounds.iter().position(|(lo, hi)| *lo <= x && x < *hi).unwrap_or(0))).collect();
        let ev_tid = |e: &Ev| -> Option<u64> {
            match e {
                Ev::TNew { tid, .. } | Ev::TAppend { tid, .. } | Ev::TChal { tid, .. } | Ev::RBuild { tid, .. } => Some(*tid),
                Ev::TClone { from, .. } => Some(*from),
                _ => None,
            }
        };
        // the caller prepares its transcripts one after the other (creation, then its own context appends): the library call
        // begins with the first event after the last creation that is not on that last transcript
        let last_new = caller.last().map(|(i, _)| *i).unwrap_or(0);
        let last_tid = caller.last().map(|(_, t)| *t);
        let pre_end = rec.merlin.iter().enumerate().skip(last_new + 1).find(|(_, e)| ev_tid(e) != last_tid).map(|(i, _)| i).unwrap_or(rec.merlin.len());
        let mut starts = vec![rec.merlin.len(); nch + 1];
        for (i, e) in rec.merlin.iter().enumerate().skip(pre_end) {
            if let Some(c) = ev_tid(e).and_then(|t| chunk_of.get(&t)) {
                if starts[*c] == rec.merlin.len() {
                    starts[*c] = i;
                }
            }
        }
        starts[0] = pre_end;
        // a transcript the library creates itself (the weight transcript; it is created and labelled before the chunk's
        // first member is touched) belongs to the chunk in whose window it is LAST used
        let window_of = |i: usize| -> usize { (0..nch).rev().find(|c| starts[*c] <= i).unwrap_or(0) };
        let mut owner: Vec<usize> = (0..rec.merlin.len()).map(|i| if i < pre_end { usize::MAX } else { window_of(i) }).collect();
        let mut last_use: HashMap<u64, usize> = HashMap::new();
        for i in pre_end..rec.merlin.len() {
            if let Some(t) = ev_tid(&rec.merlin[i]) {
                if !chunk_of.contains_key(&t) {
                    last_use.insert(t, i);
                }
            }
        }
        for i in pre_end..rec.merlin.len() {
            if let Some(u) = ev_tid(&rec.merlin[i]).and_then(|t| last_use.get(&t)) {
                owner[i] = window_of(*u);
            }
        }
        let monotone = (0..nch).all(|c| starts[c] < rec.merlin.len() && (c == 0 || starts[c - 1] < starts[c]));
        if monotone {
            for c in 0..nch {
                let (lo, hi) = bounds[c];
                let mut minfo = info.clone();
                minfo["members"] = json!(info["members"].as_array().unwrap()[lo..hi].to_vec());
                if let Some(ms) = info["masks"].as_array() {
                    minfo["masks"] = json!(ms.iter().skip(lo).take(hi - lo).cloned().collect::<Vec<_>>());
                }
                for k in ["nstmts", "nproofs", "ntrans"] {
                    minfo[k] = json!(hi - lo);
                }
                let mut mer: Vec<Ev> = rec.merlin[..pre_end].iter().filter(|e| ev_tid(e).and_then(|t| chunk_of.get(&t)) == Some(&c)).cloned().collect();
                mer.extend((pre_end..rec.merlin.len()).filter(|i| owner[*i] == c).map(|i| rec.merlin[i].clone()));
                let glo = if c == 0 { 0 } else { mixed_pos[c - 1] + 1 };
                let part = CallRec { kind: "verify", merlin: mer, group: rec.group[glo..=mixed_pos[c]].to_vec(), info: minfo };
                verify_trace_one(&part, toks, arith, out);
            }
            return;
        }
    }
    verify_trace_one(rec, toks, arith, out);
}

fn verify_trace_one(rec: &CallRec, toks: &mut Toks, arith: bool, out: &mut Vec<Value>) {
    let info = &rec.info;
    let members = info["members"].as_array().unwrap();
    let np = members.len();
    // --- the call: per member, configuration, tokens of every absorbed datum, response scalars as limbs
    let mut mv = vec![];
    let mut parts = vec![];
    for (mi, mb) in members.iter().enumerate() {
        let bytes: Vec<u8> = mb["bytes"].as_array().unwrap().iter().map(|x| x.as_u64().unwrap() as u8).collect();
        let pp = parse_proof(&bytes);
        let t = pp.t;
        let commits: Vec<[u8; 32]> = mb["commits"].as_array().unwrap().iter().map(bytes32).collect();
        let gs: Vec<[u8; 32]> = mb["G"].as_array().unwrap().iter().map(bytes32).collect();
        let h = bytes32(&mb["H"]);
        let proms: Vec<u64> = mb["proms"].as_array().unwrap().iter().map(|p| p.as_str().map(|s| s.parse::<u64>().unwrap()).unwrap_or(0)).collect();
        // the recovered mask of this member (if any) and the reference seed nonces of the VERIFIER's seed
        let mask: Vec<Value> = info["masks"].as_array().and_then(|a| a.get(mi)).and_then(|m| m.as_array()).map(|a| a.iter().map(|b| bl(&bytes32(b))).collect()).unwrap_or_default();
        let nref = match mb["seed"].as_array() {
            Some(_) => {
                let s = Option::<Scalar>::from(Scalar::from_canonical_bytes(bytes32(&mb["seed"]))).unwrap_or(Scalar::ZERO);
                json!({
                    "alpha": (0..t).map(|k| sl(&ref_nonce(&s, "alpha", None, Some(k as u32)))).collect::<Vec<_>>(),
                    "dL": (0..pp.k).map(|j| (0..t).map(|k| sl(&ref_nonce(&s, "dL", Some(j as u32), Some(k as u32)))).collect::<Vec<_>>()).collect::<Vec<_>>(),
                    "dR": (0..pp.k).map(|j| (0..t).map(|k| sl(&ref_nonce(&s, "dR", Some(j as u32), Some(k as u32)))).collect::<Vec<_>>()).collect::<Vec<_>>(),
                    "d": (0..t).map(|k| sl(&ref_nonce(&s, "d", None, Some(k as u32)))).collect::<Vec<_>>(),
                    "eta": (0..t).map(|k| sl(&ref_nonce(&s, "eta", None, Some(k as u32)))).collect::<Vec<_>>(),
                })
            },
            None => json!({"alpha": [], "dL": [], "dR": [], "d": [], "eta": []}),
        };
        mv.push(json!({
            "n": mb["n"], "m": mb["m"], "t": mb["t"], "cap": mb["cap"], "k": pp.k, "tag": t, "seeded": mb["seeded"], "mask": mask, "nref": nref,
            "prom": proms.iter().map(|p| sl(&Scalar::from(*p))).collect::<Vec<_>>(),
            "prom64": proms.iter().map(|p| u64_limbs16(&p.to_le_bytes())).collect::<Vec<_>>(),
            "r1": bl(&pp.r1()), "s1": bl(&pp.s1()), "d1": (0..t).map(|k| bl(&pp.d1(k))).collect::<Vec<_>>(),
            "tok": {
                "H": toks.tok(&h), "G": gs.iter().map(|g| toks.tok(g)).collect::<Vec<_>>(),
                "C": commits.iter().map(|c| toks.tok(c)).collect::<Vec<_>>(),
                "A": toks.tok(&pp.a()), "A1": toks.tok(&pp.a1()), "B": toks.tok(&pp.b()),
                "L": (0..pp.k).map(|j| toks.tok(&pp.l(j))).collect::<Vec<_>>(),
                "R": (0..pp.k).map(|j| toks.tok(&pp.r(j))).collect::<Vec<_>>(),
                "r1": toks.tok(&pp.r1()), "s1": toks.tok(&pp.s1()), "d1": (0..t).map(|k| toks.tok(&pp.d1(k))).collect::<Vec<_>>(),
            },
        }));
        parts.push((pp, commits, gs, h));
    }
    let ntrans = info["ntrans"].as_u64().unwrap() as usize;
    let tids: Vec<u64> = rec.merlin.iter().filter_map(|e| if let Ev::TNew { tid, .. } = e { Some(*tid) } else { None }).take(ntrans).collect();
    out.push(json!({"ev": "VCall", "mode": info["mode"], "np": np, "tids": tids, "pair": info["pair"], "first": info["first"], "wdiff": info["wdiff"], "nstmts": info["nstmts"], "nproofs": info["nproofs"],
        "ntrans": info["ntrans"], "result": info["result"], "members": mv}));
    // --- transcript / RNG events, in the order they happened
    merlin_events(&rec.merlin, toks, out);
    // --- the final multiscalar multiplication as seen at the trait boundary
    let mixed: Vec<&MixedEvent> = rec.group.iter().filter_map(|g| if let GEv::Mixed(m) = g { Some(m) } else { None }).collect();
    let ndec_fail = rec.group.iter().filter(|g| matches!(g, GEv::Decompress { ok: false, .. })).count();
    if mixed.len() == 1 && arith {
        let ev = mixed[0];
        // observed scalar per distinct dynamic point (summing over equal points; the identity contributes nothing)
        let mut obs: Vec<([u8; 32], Scalar)> = vec![];
        for (p, sc) in ev.dyn_p.iter().zip(ev.dyn_s.iter()) {
            if p.is_zero() {
                continue;
            }
            let c = p.compress().0;
            match obs.iter_mut().find(|(k, _)| *k == c) {
                Some(e) => e.1 += sc,
                None => obs.push((c, *sc)),
            }
        }
        // the weight of member i is read off the scalar on B_i: that needs B_i to be in no other role
        let mut all: Vec<[u8; 32]> = vec![];
        for (pp, commits, _, _) in &parts {
            all.extend([pp.a(), pp.a1(), pp.b()]);
            all.extend((0..pp.k).map(|j| pp.l(j)));
            all.extend((0..pp.k).map(|j| pp.r(j)));
            all.extend(commits.iter().cloned());
        }
        if let Some((_, _, gs, h)) = parts.first() {
            all.push(*h);
            all.extend(gs.iter().cloned());
        }
        let ambiguous = parts.iter().any(|(pp, _, _, _)| all.iter().filter(|x| **x == pp.b()).count() > 1);
        let maxcap = members.iter().map(|mb| mb["cap"].as_u64().unwrap_or(1)).max().unwrap_or(1).max(64) as u32;
        let roles = refgens::fm_roles(maxcap, 64);
        let stat: Vec<Value> = ev.table.iter().zip(ev.stat.iter()).map(|(p, s)| {
            let r = table_role(p, &roles);
            json!([r[0], r[1], r[2], sl(s)])
        }).collect();
        if !ambiguous {
            out.push(json!({"ev": "VMSM", "nstat": ev.stat.len(), "ntable": ev.table.len(), "ndyn_s": ev.dyn_s.len(), "ndyn_p": ev.dyn_p.len(),
                "stat": stat, "obs": obs.iter().map(|(c, sc)| json!([toks.tok(c), sl(sc)])).collect::<Vec<_>>(), "arith": true,
                "idtok": toks.tok(&{ use curve25519_dalek::traits::Identity; FP::identity().compress().0 }),
                "out_zero": ev.out.is_zero()}));
        } else {
            out.push(json!({"ev": "VSkip", "why": "the B point of a member occurs in another role (identical proofs in one batch)"}));
        }
    } else if mixed.len() == 1 {
        // token mode: only the verdict-relevant part of the final check
        let ev = mixed[0];
        out.push(json!({"ev": "VMSM", "nstat": ev.stat.len(), "ntable": ev.table.len(), "ndyn_s": ev.dyn_s.len(), "ndyn_p": ev.dyn_p.len(),
            "stat": [], "obs": [], "arith": false, "idtok": 0, "out_zero": ev.out.is_zero()}));
    } else {
        out.push(json!({"ev": "VNoMSM", "count": mixed.len(), "decompress_failures": ndec_fail}));
    }
    out.push(json!({"ev": "VRet", "result": info["result"]}));
    let _ = inv_or_zero(&Scalar::ONE);
    let _ = fm::clear_digests;
}

/// claimed inverses of the challenges of one transcript (y, each round e), computed by the harness and checked by TLC
pub fn inverses_for(evs: &[Ev]) -> HashMap<u64, Vec<Value>> {
    let mut m: HashMap<u64, Vec<Value>> = HashMap::new();
    for e in evs {
        if let Ev::TChal { tid, out, .. } = e {
            if out.len() == 64 {
                let mut a = [0u8; 64];
                a.copy_from_slice(out);
                let s = Scalar::from_bytes_mod_order_wide(&a);
                m.entry(*tid).or_default().push(sl(&inv_or_zero(&s)));
            }
        }
    }
    m
}

// ---------------------------------------------------------------------------------------------------
// prover traces
// ---------------------------------------------------------------------------------------------------

/// Reference seed-nonce derivation (Nonce.tla): Blake2b-512 keyed MAC, key = 0x00 || seed || ['j' || LE32(j)] || ['k' || LE32(k)],
/// persona = label, empty salt and message, output reduced mod l.
pub fn nonce_key_suffix(j: Option<u32>, k: Option<u32>) -> Vec<u8> {
    let mut key = vec![];
    if let Some(j) = j {
        key.push(b'j');
        key.extend_from_slice(&j.to_le_bytes());
    }
    if let Some(k) = k {
        key.push(b'k');
        key.extend_from_slice(&k.to_le_bytes());
    }
    key
}
pub fn ref_nonce(seed: &Scalar, label: &str, j: Option<u32>, k: Option<u32>) -> Scalar {
    use blake2::Blake2bMac512;
    use digest::FixedOutput;
    let mut key = vec![0u8];
    key.extend_from_slice(seed.as_bytes());
    key.extend_from_slice(&nonce_key_suffix(j, k));
    let h = Blake2bMac512::new_with_salt_and_personal(&key, &[], label.as_bytes()).expect("blake2b parameters");
    let mut out = [0u8; 64];
    out.copy_from_slice(h.finalize_fixed().as_slice());
    Scalar::from_bytes_mod_order_wide(&out)
}

pub struct ProverInputs<'a> {
    pub n: usize,
    pub t: usize,
    pub m: usize,
    pub cap: usize,
    pub vals: &'a [u64],
    pub proms: &'a [Option<u64>],
    pub blinds: &'a [Vec<Scalar>],
    pub commitments: Vec<[u8; 32]>,
    pub h: [u8; 32],
    pub g: Vec<[u8; 32]>,
    pub h_sym: u32,
    pub g_syms: Vec<u32>,
    pub seed: Option<Scalar>,
}

/// coordinates of a point over the generator symbols, by role; `other` counts coordinates on anything else
fn coords(p: &FP, inp: &ProverInputs, roles: &HashMap<u32, (u8, u32, u32)>, nm: usize) -> Value {
    let mut gi = vec![Scalar::ZERO; nm];
    let mut hi = vec![Scalar::ZERO; nm];
    let mut g = vec![Scalar::ZERO; inp.t];
    let mut h = Scalar::ZERO;
    let mut other = 0;
    for (id, v) in &p.0 {
        if *v == Scalar::ZERO {
            continue;
        }
        if *id == inp.h_sym {
            h = *v;
        } else if let Some(k) = inp.g_syms.iter().position(|s| s == id) {
            g[k] = *v;
        } else if let Some((kind, party, i)) = roles.get(id) {
            let x = (*party as usize) * inp.n + (*i as usize);
            if (*i as usize) < inp.n && x < nm {
                if *kind == b'G' {
                    gi[x] = *v;
                } else {
                    hi[x] = *v;
                }
            } else {
                other += 1;
            }
        } else {
            other += 1;
        }
    }
    if LIGHT.load(std::sync::atomic::Ordering::Relaxed) {
        // long proofs: only the coordinates on H and the G_k (where the nonces sit) and the count of stray coordinates
        return json!({"H": sl(&h), "G": g.iter().map(sl).collect::<Vec<_>>(), "Gi": [], "Hi": [], "other": other});
    }
    json!({"H": sl(&h), "G": g.iter().map(sl).collect::<Vec<_>>(), "Gi": gi.iter().map(sl).collect::<Vec<_>>(),
        "Hi": hi.iter().map(sl).collect::<Vec<_>>(), "other": other})
}
pub static LIGHT: std::sync::atomic::AtomicBool = std::sync::atomic::AtomicBool::new(false);

pub fn prove_trace(rec: &CallRec, inp: &ProverInputs, toks: &mut Toks, arith: bool, out: &mut Vec<Value>) {
    use tari_bulletproofs_plus::traits::{Decompressable, FixedBytesRepr};
    let info = &rec.info;
    let bytes: Vec<u8> = info["bytes"].as_array().unwrap().iter().map(|x| x.as_u64().unwrap() as u8).collect();
    let pp = parse_proof(&bytes);
    let nm = inp.n * inp.m;
    let roles = refgens::fm_roles((inp.cap as u32).max(64), 64);
    let pt = |b: [u8; 32]| -> FP { fm::CFP::from_fixed_bytes(b).decompress().expect("prover output decodes") };
    // the serialised witness exactly as the protocol defines it: v_j LE64 || r_j,k
    let mut wbytes = vec![];
    for j in 0..inp.m {
        wbytes.extend_from_slice(&inp.vals[j].to_le_bytes());
        for r in &inp.blinds[j] {
            wbytes.extend_from_slice(r.as_bytes());
        }
    }
    let tid: Vec<u64> = rec.merlin.iter().filter_map(|e| if let Ev::TNew { tid, .. } = e { Some(*tid) } else { None }).take(1).collect();
    let mut call = json!({
        "ev": "PCall", "n": inp.n, "m": inp.m, "t": inp.t, "cap": inp.cap, "k": pp.k, "nm": nm, "seeded": inp.seed.is_some(),
        "tid": tid.first().copied().unwrap_or(0),
        "vals": inp.vals.iter().map(|v| u64_limbs16(&v.to_le_bytes())).collect::<Vec<_>>(),
        "proms": inp.proms.iter().map(|p| p.map(|v| u64_limbs16(&v.to_le_bytes())).unwrap_or(json!([]))).collect::<Vec<_>>(),
        "prom64": inp.proms.iter().map(|p| u64_limbs16(&p.unwrap_or(0).to_le_bytes())).collect::<Vec<_>>(),
        "prom": inp.proms.iter().map(|p| sl(&Scalar::from(p.unwrap_or(0)))).collect::<Vec<_>>(),
        "rb": inp.blinds.iter().map(|r| r.iter().map(sl).collect::<Vec<_>>()).collect::<Vec<_>>(),
        "wtok": toks.tok(&wbytes), "wlen": wbytes.len(),
        "r1": bl(&pp.r1()), "s1": bl(&pp.s1()), "d1": (0..pp.t).map(|k| bl(&pp.d1(k))).collect::<Vec<_>>(),
        "tag": pp.t,
        "tok": {
            "H": toks.tok(&inp.h), "G": inp.g.iter().map(|g| toks.tok(g)).collect::<Vec<_>>(),
            "C": inp.commitments.iter().map(|c| toks.tok(c)).collect::<Vec<_>>(),
            "A": toks.tok(&pp.a()), "A1": toks.tok(&pp.a1()), "B": toks.tok(&pp.b()),
            "L": (0..pp.k).map(|j| toks.tok(&pp.l(j))).collect::<Vec<_>>(),
            "R": (0..pp.k).map(|j| toks.tok(&pp.r(j))).collect::<Vec<_>>(),
            "r1": toks.tok(&pp.r1()), "s1": toks.tok(&pp.s1()), "d1": (0..pp.t).map(|k| toks.tok(&pp.d1(k))).collect::<Vec<_>>(),
        },
    });
    if arith {
        call["A"] = coords(&pt(pp.a()), inp, &roles, nm);
        call["A1"] = coords(&pt(pp.a1()), inp, &roles, nm);
        call["B"] = coords(&pt(pp.b()), inp, &roles, nm);
        call["Ls"] = json!((0..pp.k).map(|j| coords(&pt(pp.l(j)), inp, &roles, nm)).collect::<Vec<_>>());
        call["Rs"] = json!((0..pp.k).map(|j| coords(&pt(pp.r(j)), inp, &roles, nm)).collect::<Vec<_>>());
    } else {
        for f in ["A", "A1", "B"] {
            call[f] = json!({});
        }
        call["Ls"] = json!([]);
        call["Rs"] = json!([]);
    }
    // reference seed nonces (Nonce.tla layout), only when the statement carries a seed
    call["nref"] = match &inp.seed {
        Some(s) => json!({
            "alpha": (0..inp.t).map(|k| sl(&ref_nonce(s, "alpha", None, Some(k as u32)))).collect::<Vec<_>>(),
            "dL": (0..pp.k).map(|j| (0..inp.t).map(|k| sl(&ref_nonce(s, "dL", Some(j as u32), Some(k as u32)))).collect::<Vec<_>>()).collect::<Vec<_>>(),
            "dR": (0..pp.k).map(|j| (0..inp.t).map(|k| sl(&ref_nonce(s, "dR", Some(j as u32), Some(k as u32)))).collect::<Vec<_>>()).collect::<Vec<_>>(),
            "d": (0..inp.t).map(|k| sl(&ref_nonce(s, "d", None, Some(k as u32)))).collect::<Vec<_>>(),
            "eta": (0..inp.t).map(|k| sl(&ref_nonce(s, "eta", None, Some(k as u32)))).collect::<Vec<_>>(),
        }),
        None => json!({"alpha": [], "dL": [], "dR": [], "d": [], "eta": []}),
    };
    call["arith"] = json!(arith);
    call["reference"] = json!(info["reference"].as_bool().unwrap_or(false));
    out.push(call);
    merlin_events(&rec.merlin, toks, out);
    // the precomputed MSM that produced A: static scalars by table role, as the prover handed them over
    let mixed: Vec<&MixedEvent> = rec.group.iter().filter_map(|g| if let GEv::Mixed(m) = g { Some(m) } else { None }).collect();
    let amsm = match mixed.first() {
        Some(ev) => json!({"ev": "PMSM", "count": mixed.len(), "nstat": ev.stat.len(), "ntable": ev.table.len(),
            "stat": ev.table.iter().zip(ev.stat.iter()).map(|(p, s)| { let r = table_role(p, &roles); json!([r[0], r[1], r[2], sl(s)]) }).collect::<Vec<_>>(),
            "ndyn_s": ev.dyn_s.len(), "ndyn_p": ev.dyn_p.len()}),
        None => json!({"ev": "PMSM", "count": 0, "nstat": 0, "ntable": 0, "stat": [], "ndyn_s": 0, "ndyn_p": 0}),
    };
    out.push(amsm);
    out.push(json!({"ev": "PRet"}));
}
