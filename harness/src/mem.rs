//! C20 scenarios: the library handles secrets while the tracing allocator is armed; every release is logged.

use std::{convert::TryFrom, mem::ManuallyDrop};

use curve25519_dalek::{ristretto::RistrettoPoint, scalar::Scalar};
use merlin::Transcript;
use serde_json::{json, Value};
use tari_bulletproofs_plus::{
    commitment_opening::CommitmentOpening,
    extended_mask::ExtendedMask,
    generators::pedersen_gens::ExtensionDegree,
    range_parameters::RangeParameters,
    range_proof::{RangeProof, VerifyAction},
    range_statement::RangeStatement,
    range_witness::RangeWitness,
    ristretto::create_pedersen_gens_with_extension_degree,
};

use crate::{alloc, util::*};

type P = RistrettoPoint;

struct Secrets {
    names: Vec<String>,
    pats: Vec<Vec<u8>>,
}
impl Secrets {
    fn taint_names(&self, mask: u64) -> Vec<String> {
        (0..self.names.len()).filter(|i| mask >> i & 1 == 1).map(|i| self.names[i].clone()).collect()
    }
}

fn emit(out: &mut Vec<Value>, scen: u64, name: &str, sec: &Secrets) {
    let evs = alloc::events();
    out.push(json!({"ev": "Arm", "scen": scen, "scenario": name, "secrets": sec.names}));
    for (size, mask) in &evs {
        out.push(json!({"ev": "Free", "scen": scen, "size": size, "taint": sec.taint_names(*mask)}));
    }
    out.push(json!({"ev": "Disarm", "scen": scen, "frees": evs.len(), "total": alloc::total_frees()}));
}

/// like `emit`, for long scenarios: runs of releases that held no secret are logged as one `Frees` event
fn emit_compact(out: &mut Vec<Value>, scen: u64, name: &str, sec: &Secrets) {
    let evs = alloc::events();
    assert!(alloc::total_frees() <= alloc::MAX_EVENTS, "allocator log overflow");
    out.push(json!({"ev": "Arm", "scen": scen, "scenario": name, "secrets": sec.names}));
    let mut run = 0usize;
    for (size, mask) in &evs {
        if *mask == 0 {
            run += 1;
        } else {
            if run > 0 {
                out.push(json!({"ev": "Frees", "scen": scen, "count": run}));
                run = 0;
            }
            out.push(json!({"ev": "Free", "scen": scen, "size": size, "taint": sec.taint_names(*mask)}));
        }
    }
    if run > 0 {
        out.push(json!({"ev": "Frees", "scen": scen, "count": run}));
    }
    out.push(json!({"ev": "Disarm", "scen": scen, "frees": evs.len(), "total": alloc::total_frees()}));
}

/// run `f` with the allocator armed for the given secrets
fn armed<T>(sec: &Secrets, f: impl FnOnce() -> T) -> T {
    alloc::set_patterns(&sec.pats);
    alloc::arm();
    let r = f();
    alloc::disarm();
    r
}

pub fn run(seed: u64, full: bool) -> (Vec<Value>, u64) {
    let mut out = vec![];
    let mut scen = 0u64;
    let ts: Vec<usize> = if full { (1..=6).collect() } else { vec![1, 2, 6] };
    let ms: Vec<usize> = if full { vec![1, 2, 4] } else { vec![1, 2] };
    for &n in &[8usize, 64] {
        for &t in &ts {
            for &m in &ms {
                for seeded in [false, true] {
                    if seeded && m > 1 {
                        continue;
                    }
                    // ---- inputs, prepared before arming; the harness's own copies outlive every armed section
                    let pc = create_pedersen_gens_with_extension_degree(ExtensionDegree::try_from(t).unwrap());
                    let params = RangeParameters::<P>::init(n, m, pc).unwrap();
                    let vals: Vec<u64> = (0..m).map(|j| if n == 64 { 0x0807060504030201u64 + (j as u64) * 0x0101010101010101 } else { 17 + j as u64 }).collect();
                    let blinds: Vec<Vec<Scalar>> = (0..m).map(|j| (0..t).map(|k| hash_scalar(&[b"mem-blind", &seed.to_le_bytes(), &scen.to_le_bytes(), &(j as u64).to_le_bytes(), &(k as u64).to_le_bytes()])).collect()).collect();
                    let seed_sc = hash_scalar(&[b"mem-seed", &seed.to_le_bytes(), &scen.to_le_bytes()]);
                    let commitments: Vec<P> = (0..m).map(|j| params.pc_gens().commit(&Scalar::from(vals[j]), &blinds[j]).unwrap()).collect();
                    let mut sec = Secrets { names: vec![], pats: vec![] };
                    sec.names.push("seed".into());
                    sec.pats.push(seed_sc.as_bytes().to_vec());
                    for j in 0..m {
                        for k in 0..t {
                            sec.names.push(format!("blinding[{}][{}]", j, k));
                            sec.pats.push(blinds[j][k].as_bytes().to_vec());
                        }
                        if n == 64 {
                            sec.names.push(format!("value[{}]", j));
                            sec.pats.push(vals[j].to_le_bytes().to_vec());
                        }
                    }
                    let label = format!("n={} t={} m={} seeded={}", n, t, m, seeded);
                    let stmt_seed = if seeded { Some(seed_sc) } else { None };

                    // (a) drops of the owning types
                    // (an opening built from a vector that was longer before: what sits in the spare capacity is the caller's
                    //  secret too, and the vector belongs to the opening now)
                    let spare: Vec<Scalar> = (0..3).map(|k| hash_scalar(&[b"mem-spare", &seed.to_le_bytes(), &scen.to_le_bytes(), &(k as u64).to_le_bytes()])).collect();
                    let mut longer = blinds[0].clone();
                    longer.extend(spare.iter().cloned());
                    longer.truncate(t);
                    let o4 = CommitmentOpening::new(vals[0], longer);
                    for (k, sp) in spare.iter().enumerate() {
                        if sec.names.len() < 60 {
                            sec.names.push(format!("truncated factor {}", k));
                            sec.pats.push(sp.as_bytes().to_vec());
                        }
                    }
                    drop(spare);
                    let ops: Vec<CommitmentOpening> = (0..m).map(|j| CommitmentOpening::new(vals[j], blinds[j].clone())).collect();
                    let o2 = CommitmentOpening::new(vals[0], blinds[0].clone());
                    let o3 = o2.clone();
                    let w = RangeWitness::init(ops).unwrap();
                    let w2 = w.clone();
                    let mk = ExtendedMask::assign(ExtensionDegree::try_from(t).unwrap(), blinds[0].clone()).unwrap();
                    armed(&sec, || {
                        drop(o2);
                        drop(o3);
                        drop(o4);
                        drop(w2);
                        let b = mk.blindings().unwrap(); // a plain copy handed to the caller: the caller's to wipe
                        std::mem::forget(b);
                        drop(mk);
                    });
                    emit(&mut out, scen, &format!("drop owners [{}]", label), &sec);
                    scen += 1;

                    // (b) prove (and the witness dropped afterwards)
                    let stmt = RangeStatement::init(params.clone(), commitments.clone(), (0..m).map(|j| if j % 2 == 0 { Some(3) } else { None }).collect(), stmt_seed).unwrap();
                    let mut ext = RngModel::new("chacha", seed ^ scen);
                    let mut tr = Transcript::new(b"bppv mem");
                    let proof = armed(&sec, || {
                        let p = RangeProof::<P>::prove_with_rng(&mut tr, &stmt, &w, &mut ext);
                        drop(w);
                        p
                    })
                    .expect("honest prove");
                    emit(&mut out, scen, &format!("prove [{}]", label), &sec);
                    scen += 1;

                    // (c) verification with recovery; the returned masks are dropped
                    let mut trs = vec![Transcript::new(b"bppv mem")];
                    let ok = armed(&sec, || {
                        let r = RangeProof::<P>::verify_batch(&mut trs, std::slice::from_ref(&stmt), std::slice::from_ref(&proof), VerifyAction::RecoverAndVerify);
                        let ok = r.is_ok();
                        drop(r);
                        ok
                    });
                    assert!(ok, "honest verification");
                    emit(&mut out, scen, &format!("verify+recover [{}]", label), &sec);
                    scen += 1;
                    let mut trs = vec![Transcript::new(b"bppv mem")];
                    armed(&sec, || {
                        let r = RangeProof::<P>::verify_batch(&mut trs, std::slice::from_ref(&stmt), std::slice::from_ref(&proof), VerifyAction::RecoverOnly);
                        drop(r);
                    });
                    emit(&mut out, scen, &format!("recover only [{}]", label), &sec);
                    scen += 1;

                    // (d) error paths of the prover: promise above the value (fails after the transcript and witness bytes exist)
                    let bad_stmt = RangeStatement::init(params.clone(), commitments.clone(), (0..m).map(|j| if j == m - 1 { Some(vals[j].wrapping_add(1).max(1)) } else { None }).collect(), stmt_seed).unwrap();
                    let wbad = RangeWitness::init((0..m).map(|j| CommitmentOpening::new(vals[j], blinds[j].clone())).collect()).unwrap();
                    let mut tr = Transcript::new(b"bppv mem");
                    armed(&sec, || {
                        let r = RangeProof::<P>::prove_with_rng(&mut tr, &bad_stmt, &wbad, &mut ext);
                        drop(r);
                        drop(wbad);
                    });
                    emit(&mut out, scen, &format!("prove error path [{}]", label), &sec);
                    scen += 1;

                    // (e) the inline seed of a dropped statement
                    if seeded {
                        let mut md = ManuallyDrop::new(stmt);
                        let size = std::mem::size_of::<RangeStatement<P>>();
                        alloc::set_patterns(&sec.pats);
                        let before = unsafe { alloc::scan_region(&*md as *const RangeStatement<P> as *const u8, size) };
                        unsafe { ManuallyDrop::drop(&mut md) };
                        let after = unsafe { alloc::scan_region(&*md as *const RangeStatement<P> as *const u8, size) };
                        out.push(json!({"ev": "Inline", "scen": scen, "what": format!("statement seed [{}]", label), "present_before": before & 1 == 1,
                            "found": sec.taint_names(after & 1)}));
                        scen += 1;
                    }
                    drop(bad_stmt);
                    drop(blinds);
                }
            }
        }
    }
    // ---- (f) a worker thread's whole life: prove with a seed, recover, drop everything, END - what the thread leaves behind
    // (thread-local buffers) is released when it ends, while the allocator is still armed
    for &t in &[1usize, 3] {
        let pc = create_pedersen_gens_with_extension_degree(ExtensionDegree::try_from(t).unwrap());
        let params = RangeParameters::<P>::init(8, 1, pc).unwrap();
        let blinds: Vec<Scalar> = (0..t).map(|k| hash_scalar(&[b"mem-thread-blind", &seed.to_le_bytes(), &(t as u64).to_le_bytes(), &(k as u64).to_le_bytes()])).collect();
        let seed_sc = hash_scalar(&[b"mem-thread-seed", &seed.to_le_bytes(), &(t as u64).to_le_bytes()]);
        let c = params.pc_gens().commit(&Scalar::from(99u64), &blinds).unwrap();
        let mut sec = Secrets { names: vec!["seed".into()], pats: vec![seed_sc.as_bytes().to_vec()] };
        for (k, b) in blinds.iter().enumerate() {
            sec.names.push(format!("blinding[0][{}]", k));
            sec.pats.push(b.as_bytes().to_vec());
        }
        let (p2, b2) = (params.clone(), blinds.clone());
        // (the closure handed to the thread is a heap block of the harness: it must not hold the seed itself)
        let seed_ref: &'static Scalar = Box::leak(Box::new(seed_sc));
        armed(&sec, || {
            std::thread::spawn(move || {
                let stmt = RangeStatement::init(p2, vec![c], vec![Some(1)], Some(*seed_ref)).unwrap();
                let w = RangeWitness::init(vec![CommitmentOpening::new(99, b2)]).unwrap();
                let mut ext = RngModel::new("chacha", 4242);
                let proof = RangeProof::<P>::prove_with_rng(&mut Transcript::new(b"bppv mem"), &stmt, &w, &mut ext).expect("honest prove");
                drop(w);
                for action in [VerifyAction::RecoverAndVerify, VerifyAction::RecoverOnly] {
                    let r = RangeProof::<P>::verify_batch(&mut [Transcript::new(b"bppv mem")], std::slice::from_ref(&stmt), std::slice::from_ref(&proof), action);
                    assert!(r.is_ok());
                    drop(r);
                }
                drop(stmt);
            })
            .join()
            .expect("worker thread");
        });
        emit_compact(&mut out, scen, &format!("worker thread life t={}", t), &sec);
        scen += 1;
    }
    // ---- (h) many commitments at a higher extension degree (scratch space that no longer fits small fixed buffers): a proof, and the
    // prover's error path (the LAST opening does not open its commitment; the LAST promise exceeds its value)
    for &(m, t) in &[(16usize, 3usize), (64, 1), (32, 2)] {
        let pc = create_pedersen_gens_with_extension_degree(ExtensionDegree::try_from(t).unwrap());
        let params = RangeParameters::<P>::init(2, m, pc).unwrap();
        let blinds: Vec<Vec<Scalar>> = (0..m).map(|j| (0..t).map(|k| hash_scalar(&[b"mem-wide-blind", &seed.to_le_bytes(), &(m as u64).to_le_bytes(), &(j as u64).to_le_bytes(), &(k as u64).to_le_bytes()])).collect()).collect();
        let vals: Vec<u64> = (0..m).map(|j| 1 + (j as u64 % 3)).collect();
        let cs: Vec<P> = (0..m).map(|j| params.pc_gens().commit(&Scalar::from(vals[j]), &blinds[j]).unwrap()).collect();
        let mut sec = Secrets { names: vec![], pats: vec![] };
        for j in (0..m).step_by(m / 8) {
            for k in 0..t {
                sec.names.push(format!("blinding[{}][{}]", j, k));
                sec.pats.push(blinds[j][k].as_bytes().to_vec());
            }
        }
        let mk_w = || RangeWitness::init((0..m).map(|j| CommitmentOpening::new(vals[j], blinds[j].clone())).collect()).unwrap();
        let good = RangeStatement::init(params.clone(), cs.clone(), vec![None; m], None).unwrap();
        let mut bad_cs = cs.clone();
        bad_cs[m - 1] = bad_cs[0].clone();
        let bad_open = RangeStatement::init(params.clone(), bad_cs, vec![None; m], None).unwrap();
        let bad_prom = RangeStatement::init(params.clone(), cs.clone(), (0..m).map(|j| if j == m - 1 { Some(vals[j] + 1) } else { None }).collect(), None).unwrap();
        for (stmt, name) in [(&good, "prove"), (&bad_open, "prove error path: last opening wrong"), (&bad_prom, "prove error path: last promise above the value")] {
            let w = mk_w();
            let mut ext = RngModel::new("chacha", seed ^ 0xabc);
            let mut tr = Transcript::new(b"bppv mem");
            armed(&sec, || {
                let r = RangeProof::<P>::prove_with_rng(&mut tr, stmt, &w, &mut ext);
                drop(r);
                drop(w);
            });
            emit_compact(&mut out, scen, &format!("{} [{} commitments, degree {}]", name, m, t), &sec);
            scen += 1;
        }
    }
    // ---- (g) a batch above the chunk limit mixing aggregation factors, some statements carrying a seed; every mode
    // (the unoptimised build needs over a minute for it: there only in the thorough tier)
    if full || !cfg!(debug_assertions) {
        let nb = 258usize;
        let pc = create_pedersen_gens_with_extension_degree(ExtensionDegree::DefaultPedersen);
        let params = RangeParameters::<P>::init(2, 2, pc).unwrap();
        // (capacity reserved up front: a growing vector would leave unwiped copies of the statements, seeds included, behind)
        let mut stmts = Vec::with_capacity(nb);
        let mut proofs = Vec::with_capacity(nb);
        let mut sec = Secrets { names: vec![], pats: vec![] };
        for i in 0..nb {
            // (single commitments on both sides of the chunk boundary, so that both can carry a seed)
            let m = if i >= 254 { 1 } else { 1 + i % 2 };
            let bl: Vec<Vec<Scalar>> = (0..m).map(|j| vec![hash_scalar(&[b"mem-big-blind", &seed.to_le_bytes(), &(i as u64).to_le_bytes(), &(j as u64).to_le_bytes()])]).collect();
            let cs: Vec<P> = (0..m).map(|j| params.pc_gens().commit(&Scalar::from((i + j) as u64 % 4), &bl[j]).unwrap()).collect();
            let sd = if m == 1 && (i % 64 == 0 || i == 255 || i == 257) { Some(hash_scalar(&[b"mem-big-seed", &seed.to_le_bytes(), &(i as u64).to_le_bytes()])) } else { None };
            if let Some(s) = &sd {
                sec.names.push(format!("seed of statement {}", i));
                sec.pats.push(s.as_bytes().to_vec());
                // the mask recovered for a seeded statement IS its blinding factor: copies of it are secrets too
                sec.names.push(format!("blinding / recovered mask of statement {}", i));
                sec.pats.push(bl[0][0].as_bytes().to_vec());
            }
            let stmt = RangeStatement::init(params.clone(), cs, vec![None; m], sd).unwrap();
            let w = RangeWitness::init((0..m).map(|j| CommitmentOpening::new((i + j) as u64 % 4, bl[j].clone())).collect()).unwrap();
            let mut ext = RngModel::new("chacha", 9000 + i as u64);
            proofs.push(RangeProof::<P>::prove_with_rng(&mut Transcript::new(b"bppv mem"), &stmt, &w, &mut ext).expect("honest prove"));
            stmts.push(stmt);
        }
        for (action, name) in [(VerifyAction::VerifyOnly, "verify"), (VerifyAction::RecoverAndVerify, "verify+recover"), (VerifyAction::RecoverOnly, "recover only")] {
            let mut trs = vec![Transcript::new(b"bppv mem"); nb];
            let ok = armed(&sec, || {
                let r = RangeProof::<P>::verify_batch(&mut trs, &stmts, &proofs, action);
                let ok = r.is_ok();
                drop(r);
                ok
            });
            assert!(ok, "honest batch");
            emit_compact(&mut out, scen, &format!("batch of {} mixed members, {}", nb, name), &sec);
            scen += 1;
        }
    }
    (out, scen)
}
