//! I5 — thread driver (C18): a fixed menu of calls, each a pure function of its arguments; executed alone
//! (reference), in TLC-generated histories with forced hand-off order on real threads, and free-running behind a
//! barrier in a fresh process (racing the first use of the lazily initialised generator tables).

use std::{
    convert::TryFrom,
    sync::{mpsc, Arc, Barrier},
};

use curve25519_dalek::{ristretto::RistrettoPoint, scalar::Scalar};
use merlin::Transcript;
use rand_chacha::ChaCha12Rng;
use rand_core::SeedableRng;
use serde_json::{json, Value};
use sha3::{Digest, Sha3_256};
use tari_bulletproofs_plus::{
    commitment_opening::CommitmentOpening,
    generators::pedersen_gens::ExtensionDegree,
    range_parameters::RangeParameters,
    range_proof::{RangeProof, VerifyAction},
    range_statement::RangeStatement,
    range_witness::RangeWitness,
    ristretto::create_pedersen_gens_with_extension_degree,
    traits::{Compressable, FixedBytesRepr},
};

type P = RistrettoPoint;
static BIG: std::sync::OnceLock<RangeParameters<P>> = std::sync::OnceLock::new();
static BULK: std::sync::OnceLock<Vec<Made>> = std::sync::OnceLock::new();
static FLOOD: std::sync::OnceLock<Vec<[u8; 32]>> = std::sync::OnceLock::new();
/// how many distinct encodings call 15 pushes through the library's point decoding
pub static FLOOD_N: std::sync::atomic::AtomicUsize = std::sync::atomic::AtomicUsize::new(40000);
pub const NCALLS: usize = 20;

fn digest(parts: &[&[u8]]) -> String {
    let mut h = Sha3_256::new();
    for p in parts {
        h.update((p.len() as u64).to_le_bytes());
        h.update(p);
    }
    h.finalize().iter().map(|b| format!("{:02x}", b)).collect()
}

fn params(n: usize, cap: usize, t: usize) -> RangeParameters<P> {
    RangeParameters::init(n, cap, create_pedersen_gens_with_extension_degree(ExtensionDegree::try_from(t).unwrap())).unwrap()
}

fn fingerprint(p: &RangeParameters<P>) -> String {
    let mut h = Sha3_256::new();
    for x in p.gi_base_iter().chain(p.hi_base_iter()) {
        h.update(x.compress().as_fixed_bytes());
    }
    for c in p.g_bases_compressed() {
        h.update(c.as_fixed_bytes());
    }
    h.update(p.h_base_compressed().as_fixed_bytes());
    h.update((p.bit_length() as u64).to_le_bytes());
    h.update((p.max_aggregation_factor() as u64).to_le_bytes());
    h.finalize().iter().map(|b| format!("{:02x}", b)).collect()
}

struct Made {
    stmt: RangeStatement<P>,
    proof: RangeProof<P>,
}

fn make(params: RangeParameters<P>, m: usize, t: usize, seeded: bool, rng_seed: u64) -> Made {
    let n = params.bit_length();
    let n = n.min(62); // values below 2^62 so the arithmetic below cannot overflow
    let blinds: Vec<Vec<Scalar>> = (0..m).map(|j| (0..t).map(|k| Scalar::from(1000 + 17 * j as u64 + k as u64 + 1_000_003 * rng_seed)).collect()).collect();
    let vals: Vec<u64> = (0..m).map(|j| (5 + 3 * j as u64) % (1u64 << n.min(63))).collect();
    let cs: Vec<P> = (0..m).map(|j| params.pc_gens().commit(&Scalar::from(vals[j]), &blinds[j]).unwrap()).collect();
    let stmt = RangeStatement::init(params, cs, (0..m).map(|j| if j == 0 { Some(1) } else { None }).collect(), if seeded { Some(Scalar::from(424242u64)) } else { None }).unwrap();
    let w = RangeWitness::init((0..m).map(|j| CommitmentOpening::new(vals[j], blinds[j].clone())).collect()).unwrap();
    let mut rng = ChaCha12Rng::seed_from_u64(rng_seed);
    let proof = RangeProof::<P>::prove_with_rng(&mut Transcript::new(b"bppv threads"), &stmt, &w, &mut rng).unwrap();
    Made { stmt, proof }
}

fn verify_digest(stmts: &[RangeStatement<P>], proofs: &[RangeProof<P>], action: VerifyAction) -> String {
    let mut trs = vec![Transcript::new(b"bppv threads"); stmts.len()];
    match RangeProof::<P>::verify_batch(&mut trs, stmts, proofs, action) {
        Ok(masks) => {
            let mut h = Sha3_256::new();
            h.update(b"ok");
            for m in masks {
                match m {
                    None => h.update(b"none"),
                    Some(mk) => {
                        for b in mk.blindings().unwrap() {
                            h.update(b.as_bytes());
                        }
                    },
                }
            }
            h.finalize().iter().map(|b| format!("{:02x}", b)).collect()
        },
        Err(e) => digest(&[b"err", format!("{:?}", e).as_bytes()]),
    }
}

/// The call menu. `shared` is a parameter object created once by the main thread (its precomputation table is behind an Arc).
pub fn call(c: usize, shared: &RangeParameters<P>) -> String {
    call_opt(c, Some(shared))
}
pub fn call_opt(c: usize, shared: Option<&RangeParameters<P>>) -> String {
    match c {
        0 => fingerprint(&params(8, 2, 1)),
        1 => fingerprint(&params(8, 4, 1)),
        2 => fingerprint(&params(16, 2, 2)),
        3 => fingerprint(&params(64, 1, 6)),
        4 => digest(&[&make(params(8, 2, 1), 2, 1, false, 7).proof.to_bytes()]),
        5 => digest(&[&make(params(8, 4, 1), 1, 1, true, 9).proof.to_bytes()]),
        6 => {
            let a = make(params(8, 2, 1), 2, 1, false, 7);
            let b = make(params(8, 4, 1), 1, 1, true, 9);
            verify_digest(&[a.stmt, b.stmt], &[a.proof, b.proof], VerifyAction::RecoverAndVerify)
        },
        7 => {
            let pc = create_pedersen_gens_with_extension_degree(ExtensionDegree::AddFiveBasePoints);
            let mut h = Sha3_256::new();
            for (p, c) in pc.g_base_vec.iter().zip(pc.g_base_compressed_vec.iter()) {
                h.update(p.compress().as_fixed_bytes());
                h.update(c.as_fixed_bytes());
            }
            h.finalize().iter().map(|b| format!("{:02x}", b)).collect()
        },
        8 => {
            let a = make(params(8, 2, 1), 2, 1, false, 7);
            let mut bytes = a.proof.to_bytes();
            let n = bytes.len();
            bytes[n - 40] ^= 1;
            match RangeProof::<P>::from_bytes(&bytes) {
                Ok(p) => verify_digest(&[a.stmt], &[p], VerifyAction::VerifyOnly),
                Err(e) => digest(&[b"decode", format!("{:?}", e).as_bytes()]),
            }
        },
        10 => {
            // a batch refused for a structural reason at its second member, after the first was already processed
            let a = make(params(8, 2, 1), 2, 1, false, 7);
            let b = make(params(8, 4, 1), 1, 1, true, 9);
            let mut bytes = b.proof.to_bytes();
            for x in bytes[1 + 32..1 + 64].iter_mut() {
                *x = 0xff; // A: not the encoding of a point
            }
            match RangeProof::<P>::from_bytes(&bytes) {
                Ok(p) => verify_digest(&[a.stmt, b.stmt], &[a.proof, p], VerifyAction::RecoverAndVerify),
                Err(e) => digest(&[b"decode", format!("{:?}", e).as_bytes()]),
            }
        },
        11 => {
            // recovery for a larger proof made under the SAME seed as call 5/6's smaller one (same degree, more rounds)
            let a = make(params(64, 1, 1), 1, 1, true, 13);
            let v1 = verify_digest(std::slice::from_ref(&a.stmt), std::slice::from_ref(&a.proof), VerifyAction::RecoverOnly);
            let v2 = verify_digest(std::slice::from_ref(&a.stmt), std::slice::from_ref(&a.proof), VerifyAction::RecoverAndVerify);
            digest(&[v1.as_bytes(), v2.as_bytes()])
        },
        12 | 13 => {
            // one parameter object of capacity 32 shared by everybody, used for 8 commitments (call 12) and for 16 (call 13)
            let big = BIG.get_or_init(|| params(2, 32, 1));
            let a = make(big.clone(), if c == 12 { 8 } else { 16 }, 1, false, 21 + c as u64);
            let v = verify_digest(std::slice::from_ref(&a.stmt), std::slice::from_ref(&a.proof), VerifyAction::VerifyOnly);
            digest(&[&a.proof.to_bytes(), v.as_bytes()])
        },
        14 => {
            // a large batch of distinct small proofs (thousands of distinct points are decoded by every such call)
            let bulk = BULK.get_or_init(|| (0..1300u64).map(|i| make(params(2, 1, 1), 1, 1, false, 5000 + i)).collect::<Vec<_>>());
            let stmts: Vec<RangeStatement<P>> = bulk.iter().map(|m| m.stmt.clone()).collect();
            let proofs: Vec<RangeProof<P>> = bulk.iter().map(|m| RangeProof::<P>::from_bytes(&m.proof.to_bytes()).unwrap()).collect();
            verify_digest(&stmts, &proofs, VerifyAction::VerifyOnly)
        },
        16 => {
            // a long proof (bits*aggregation = 1024: ten folding rounds, generator vectors of 1024 points): the same bytes every time
            let a = make(params(64, 16, 1), 16, 1, false, 31);
            digest(&[&a.proof.to_bytes()])
        },
        17 => {
            // a batch refused for TWO different reasons (three parameter objects: the second disagrees on the bit length, the
            // third on the extension degree): the error VALUE is part of the result and must be the same every time
            let a = make(params(8, 1, 1), 1, 1, false, 41);
            let b = make(params(16, 1, 1), 1, 1, false, 42);
            let c3 = make(params(8, 1, 2), 1, 2, false, 43);
            verify_digest(&[a.stmt, b.stmt, c3.stmt], &[a.proof, b.proof, c3.proof], VerifyAction::VerifyOnly)
        },
        18 => {
            // a batch that is consistent for its first 128 members and not after (the last 128 use another bit length): refused as a
            // whole, however busy the process is
            // (the members are prepared once per process: threads released together then spend their time inside verify_batch together)
            static B18: std::sync::OnceLock<Vec<Made>> = std::sync::OnceLock::new();
            let a = B18.get_or_init(|| (0..128u64).map(|i| make(params(2, 1, 1), 1, 1, false, 600 + i)).chain((0..128u64).map(|i| make(params(4, 1, 1), 1, 1, false, 800 + i))).collect());
            let stmts: Vec<RangeStatement<P>> = a.iter().map(|m| m.stmt.clone()).collect();
            let proofs: Vec<RangeProof<P>> = a.iter().map(|m| RangeProof::<P>::from_bytes(&m.proof.to_bytes()).unwrap()).collect();
            verify_digest(&stmts, &proofs, VerifyAction::VerifyOnly)
        },
        19 => {
            // a proof made with an external RNG that is stuck at zero: still a function of the arguments and that (constant) stream
            struct Stuck;
            impl rand_core::RngCore for Stuck {
                fn next_u32(&mut self) -> u32 { 0 }
                fn next_u64(&mut self) -> u64 { 0 }
                fn fill_bytes(&mut self, d: &mut [u8]) { for b in d.iter_mut() { *b = 0; } }
                fn try_fill_bytes(&mut self, d: &mut [u8]) -> Result<(), rand_core::Error> { self.fill_bytes(d); Ok(()) }
            }
            impl rand_core::CryptoRng for Stuck {}
            let pr = params(8, 1, 2);
            let bl = vec![Scalar::from(77u64), Scalar::from(78u64)];
            let c = pr.pc_gens().commit(&Scalar::from(9u64), &bl).unwrap();
            let st = RangeStatement::init(pr, vec![c], vec![None], None).unwrap();
            let w = RangeWitness::init(vec![CommitmentOpening::new(9, bl)]).unwrap();
            let p = RangeProof::<P>::prove_with_rng(&mut Transcript::new(b"bppv threads"), &st, &w, &mut Stuck).unwrap();
            digest(&[&p.to_bytes()])
        },
        15 => {
            // volume: tens of thousands of DISTINCT encodings (half of them points, half mostly not) go through the library's
            // point decoding on this thread; state that only builds up with volume shows in this call's own result when it
            // is repeated, and in every later call of the thread
            use tari_bulletproofs_plus::traits::Decompressable;
            let n = FLOOD_N.load(std::sync::atomic::Ordering::Relaxed);
            let list = FLOOD.get_or_init(|| {
                (0..n).map(|i| {
                    let mut h = sha3::Sha3_512::new();
                    h.update(b"bppv flood");
                    h.update((i as u64).to_le_bytes());
                    let w: [u8; 64] = h.finalize().into();
                    if i % 2 == 0 {
                        RistrettoPoint::from_uniform_bytes(&w).compress().to_bytes()
                    } else {
                        let mut b = [0u8; 32];
                        b.copy_from_slice(&w[..32]);
                        b
                    }
                }).collect()
            });
            let mut h = Sha3_256::new();
            for b in list {
                match Decompressable::decompress(&curve25519_dalek::ristretto::CompressedRistretto(*b)) {
                    Some(p) => {
                        h.update([1u8]);
                        h.update(p.compress().as_bytes());
                    },
                    None => h.update([0u8]),
                }
            }
            h.finalize().iter().map(|b| format!("{:02x}", b)).collect()
        },
        _ => {
            let a = make(shared.expect("shared parameter object").clone(), 2, 2, false, 11);
            let v = verify_digest(std::slice::from_ref(&a.stmt), std::slice::from_ref(&a.proof), VerifyAction::VerifyOnly);
            digest(&[&a.proof.to_bytes(), v.as_bytes()])
        },
    }
}

pub fn shared_params() -> RangeParameters<P> {
    params(16, 2, 2)
}

/// one call, alone in this (fresh, single-threaded) process
pub fn reference(c: usize) -> String {
    if c == 9 {
        call(c, &shared_params())
    } else {
        // nothing else is constructed in this process before the call
        let dummy: Option<RangeParameters<P>> = None;
        call_opt(c, dummy.as_ref())
    }
}

/// Execute histories (one JSON object per line: {threads, steps:[{th, call}]}) with a forced hand-off order.
pub fn run_histories(lines: &[Value], out: &mut Vec<Value>, run_base: usize) {
    let sh = Arc::new(shared_params());
    for (run0, h) in lines.iter().enumerate() {
        let run = run0 + run_base;
        let k = h["threads"].as_u64().unwrap() as usize;
        let mut txs = vec![];
        let (rtx, rrx) = mpsc::channel::<(usize, usize, String)>();
        let mut handles = vec![];
        for th in 1..=k {
            let (tx, rx) = mpsc::channel::<usize>();
            txs.push(tx);
            let rtx = rtx.clone();
            let sh = sh.clone();
            handles.push(std::thread::spawn(move || {
                let mut seq = 0;
                while let Ok(c) = rx.recv() {
                    seq += 1;
                    let d = std::panic::catch_unwind(std::panic::AssertUnwindSafe(|| call(c, &sh))).unwrap_or_else(|_| "panic".to_string());
                    let _ = rtx.send((th, seq, d));
                }
            }));
        }
        for s in h["steps"].as_array().unwrap() {
            let th = s["th"].as_u64().unwrap() as usize;
            let c = s["call"].as_u64().unwrap() as usize;
            txs[th - 1].send(c).unwrap();
            let (rth, seq, d) = rrx.recv().unwrap();
            out.push(json!({"ev": "Ret", "scen": run, "run": run, "th": rth, "seq": seq, "call": c, "digest": d}));
        }
        drop(txs);
        for hnd in handles {
            let _ = hnd.join();
        }
    }
}

/// One long history: `steps` calls cycling through the menu on `nthreads` threads with a forced hand-off order (state that
/// only builds up over many calls)
pub fn long_history(nthreads: usize, steps: usize) -> Value {
    let st: Vec<Value> = (0..steps).map(|i| json!({"th": 1 + (i * 7 + i / 5) % nthreads, "call": (i * 5 + i / 12) % NCALLS})).collect();
    json!({"threads": nthreads, "steps": st})
}

/// N threads start together in this (fresh) process, each running every call in its own order.
pub fn race(nthreads: usize, run: u64, out: &mut Vec<Value>) {
    let barrier = Arc::new(Barrier::new(nthreads));
    let (rtx, rrx) = mpsc::channel::<(usize, usize, usize, String)>();
    let mut handles = vec![];
    // ONE parameter object, created here and used by nobody yet: every thread's first call uses it (anything the library initialises
    // lazily inside a parameter object is first touched by all threads at once); its other calls follow in a per-thread order
    let shared = Arc::new(shared_params());
    for th in 1..=nthreads {
        let b = barrier.clone();
        let rtx = rtx.clone();
        let sh = shared.clone();
        handles.push(std::thread::spawn(move || {
            b.wait();
            let stride = [1usize, 3, 7, 9, 11, 13, 17, 19][th % 8]; // coprime with the menu size: every call once per thread
            let mut order: Vec<usize> = (0..NCALLS).map(|i| (7 + th + i * stride) % NCALLS).collect();
            order.retain(|c| *c != 9);
            order.insert(0, 9);
            let mut seq = 0;
            for c in order.into_iter() {
                seq += 1;
                let d = std::panic::catch_unwind(std::panic::AssertUnwindSafe(|| call(c, &sh))).unwrap_or_else(|_| "panic".to_string());
                let _ = rtx.send((th, seq, c, d));
            }
            // then the SAME call on every thread at the same instant (released together by the barrier), a few verifying calls in turn
            for c in [18usize, 6, 18, 17, 18] {
                b.wait();
                seq += 1;
                let d = std::panic::catch_unwind(std::panic::AssertUnwindSafe(|| call(c, &sh))).unwrap_or_else(|_| "panic".to_string());
                let _ = rtx.send((th, seq, c, d));
            }
        }));
    }
    drop(rtx);
    for h in handles {
        let _ = h.join();
    }
    let mut evs: Vec<(usize, usize, usize, String)> = rrx.iter().collect();
    evs.sort(); // per thread, by sequence number: threads are never merged by time
    for (th, seq, c, d) in evs {
        out.push(json!({"ev": "Ret", "scen": run, "run": run, "th": th, "seq": seq, "call": c, "digest": d}));
    }
}
