//! bppv — conformance harness binding the TLA+ specification in /verif/spec to the library in /repo.
#![allow(dead_code, unused_imports)]
mod alloc;
mod fm;
mod mem;
mod refgens;
mod threads;
mod trace;
mod util;
mod vectors;

use std::io::{BufRead, Write};

use serde_json::{json, Value};

#[global_allocator]
static GLOBAL: alloc::TracingAlloc = alloc::TracingAlloc;

/// the library over real Ristretto
pub mod rist {
    use curve25519_dalek::ristretto::RistrettoPoint;
    use tari_bulletproofs_plus::ristretto::create_pedersen_gens_with_extension_degree;
    pub type P = RistrettoPoint;
    pub type GEvents = ();
    pub const GROUP: &str = "ristretto";
    pub fn grec_start() {}
    pub fn grec_stop() -> GEvents {}
    pub fn pedersen_std(t: usize) -> PedersenGens<P> {
        create_pedersen_gens_with_extension_degree(ExtensionDegree::try_from(t).unwrap())
    }
    include!("exec_body.rs");
}

/// the library over the free-module group
pub mod fmx {
    use crate::fm::{self, FP};
    pub type P = FP;
    pub type GEvents = Vec<fm::GEv>;
    pub const GROUP: &str = "fm";
    pub fn grec_start() {
        fm::rec_start()
    }
    pub fn grec_stop() -> GEvents {
        fm::rec_stop()
    }
    pub fn pedersen_std(t: usize) -> PedersenGens<P> {
        let h = P::hash_from_bytes_sha3_512(b"FM_VALUE_BASEPOINT");
        let g: Vec<P> = (1..=t).map(|k| P::hash_from_bytes_sha3_512(format!("FM_MASKING_BASEPOINT_{}", k).as_bytes())).collect();
        PedersenGens {
            h_base_compressed: h.compress(),
            h_base: h,
            g_base_compressed_vec: g.iter().map(|p| p.compress()).collect(),
            g_base_vec: g,
            extension_degree: ExtensionDegree::try_from(t).unwrap(),
        }
    }
    include!("exec_body.rs");
}

fn arg<'a>(args: &'a [String], name: &str) -> Option<&'a str> {
    args.iter().position(|a| a == name).and_then(|i| args.get(i + 1)).map(|s| s.as_str())
}

macro_rules! run_cmd {
    ($modname:ident, $args:expr) => {{
        let args = $args;
        let path = arg(args, "--scen").expect("--scen");
        let seed: u64 = arg(args, "--seed").map(|s| s.parse().unwrap()).unwrap_or(1);
        let scale = arg(args, "--scale").map(|s| {
            let mut it = s.split(':');
            (it.next().unwrap().parse::<usize>().unwrap(), it.next().unwrap().parse::<usize>().unwrap())
        });
        let scale_min: usize = arg(args, "--scale-min").map(|s| s.parse().unwrap()).unwrap_or(0);
        let limit: usize = arg(args, "--limit").map(|s| s.parse().unwrap()).unwrap_or(usize::MAX);
        let skip: u64 = arg(args, "--skip").map(|s| s.parse().unwrap()).unwrap_or(0);
        let progress = arg(args, "--progress").map(|s| s.to_string());
        let per_scenario_limit: u64 = arg(args, "--scenario-timeout").map(|s| s.parse().unwrap()).unwrap_or(180);
        // watchdog: a scenario that does not come back is reported (exit 3) instead of hanging the whole run
        let started = std::sync::Arc::new(std::sync::Mutex::new((0u64, std::time::Instant::now(), false)));
        {
            let started = started.clone();
            std::thread::spawn(move || loop {
                std::thread::sleep(std::time::Duration::from_millis(500));
                let g = started.lock().unwrap();
                if g.2 && g.1.elapsed().as_secs() > per_scenario_limit {
                    eprintln!("WATCHDOG scenario {} did not return within {} s", g.0, per_scenario_limit);
                    std::process::exit(3);
                }
            });
        }
        let mut ctx = $modname::Ctx::new(seed);
        let f = std::io::BufReader::new(std::fs::File::open(path).expect("scenario file"));
        let first: u64 = arg(args, "--first-index").map(|s| s.parse().unwrap()).unwrap_or(0);
        let mut n = first;
        let mut mism: Vec<Value> = vec![];
        let mut classes = std::collections::BTreeMap::<String, u64>::new();
        for line in f.lines() {
            let line = line.unwrap();
            if line.trim().is_empty() {
                continue;
            }
            if (n - first) as usize >= limit {
                break;
            }
            if n - first < skip {
                n += 1;
                continue;
            }
            if let Some(p) = &progress {
                let _ = std::fs::write(p, format!("{}", n));
            }
            {
                let mut g = started.lock().unwrap();
                *g = (n, std::time::Instant::now(), true);
            }
            let v: Value = serde_json::from_str(&line).expect("scenario json");
            let k = v["sc"]["members"].as_array().map(|a| a.len()).unwrap_or(0);
            let sc_scale = if k > scale_min { scale } else { None };
            let (out, _) = $modname::run_scenario(&mut ctx, &v["sc"], n, sc_scale, None);
            *classes.entry(format!("{}/{}", out.prove, out.verify)).or_insert(0) += 1;
            started.lock().unwrap().2 = false;
            if let Some(msg) = $modname::compare(&v["expect"], &out) {
                mism.push(json!({"index": n, "group": $modname::GROUP, "seed": seed, "scale": sc_scale.map(|s| format!("{}:{}", s.0, s.1)),
                    "message": msg, "scenario": v}));
            }
            n += 1;
        }
        let res = json!({"group": $modname::GROUP, "executed": n - first - skip.min(n - first), "classes": classes, "mismatches": mism});
        println!("{}", res);
    }};
}

macro_rules! cases_cmd {
    ($modname:ident, $args:expr) => {{
        let args = $args;
        let path = arg(args, "--cases").expect("--cases");
        let seed: u64 = arg(args, "--seed").map(|s| s.parse().unwrap()).unwrap_or(1);
        let first: u64 = arg(args, "--first-index").map(|s| s.parse().unwrap()).unwrap_or(0);
        let f = std::io::BufReader::new(std::fs::File::open(path).expect("case file"));
        let mut n = first;
        let mut mism: Vec<Value> = vec![];
        let mut classes = std::collections::BTreeMap::<String, u64>::new();
        for line in f.lines() {
            let line = line.unwrap();
            if line.trim().is_empty() {
                continue;
            }
            let c: Value = serde_json::from_str(&line).expect("case json");
            let (got, extra) = $modname::run_case(&c, seed, n);
            *classes.entry(format!("{}:{}", c["op"].as_str().unwrap_or("?"), got)).or_insert(0) += 1;
            let exp = c["expect"].as_str().unwrap_or("?");
            if got != exp && !(exp == "notok" && (got == "err" || got == "panic")) {
                mism.push(json!({"index": n, "group": $modname::GROUP, "seed": seed, "case": c,
                    "message": format!("{}: specification predicts {}, library returned {}{}", c["op"].as_str().unwrap_or("?"), exp, got, extra.map(|e| format!(" ({})", e)).unwrap_or_default())}));
            } else if let (Some(e), false) = (extra, exp == "notok" && got == "panic") {
                mism.push(json!({"index": n, "group": $modname::GROUP, "seed": seed, "case": c, "message": format!("{}: {}", c["op"].as_str().unwrap_or("?"), e)}));
            }
            n += 1;
        }
        println!("{}", json!({"group": $modname::GROUP, "executed": n - first, "classes": classes, "mismatches": mism}));
    }};
}

macro_rules! gens_cmd {
    ($modname:ident, $args:expr, $extra:expr) => {{
        let args = $args;
        let script: Value = serde_json::from_str(&std::fs::read_to_string(arg(args, "--script").expect("--script")).unwrap()).unwrap();
        let seed: u64 = arg(args, "--seed").map(|s| s.parse().unwrap()).unwrap_or(1);
        let maxcap: usize = arg(args, "--maxcap").map(|s| s.parse().unwrap()).unwrap_or(32);
        let threads: usize = arg(args, "--threads").map(|s| s.parse().unwrap()).unwrap_or(0);
        let mut bad: Vec<String> = vec![];
        let mut n_checked = 0u64;
        let mut all = std::collections::HashMap::new();
        let ns = [1usize, 2, 4, 8, 16, 32, 64];
        let mut cap = 1;
        let mut combos = vec![];
        while cap <= maxcap {
            for n in ns {
                combos.push((n, cap));
            }
            cap *= 2;
        }
        // many parties with few generators each (party indices beyond one byte)
        for (n, cap) in [(1usize, 128usize), (1, 256), (2, 512), (1, 1024)] {
            combos.push((n, cap));
        }
        if threads > 0 {
            // every construction on every thread gives the same generators: construct concurrently, compare encodings
            let reference: Vec<Vec<[u8; 32]>> = combos.iter().take(14).map(|(n, c)| $modname::gens_fingerprint(*n, *c)).collect();
            let hs: Vec<_> = (0..threads).map(|_| { let cs: Vec<(usize, usize)> = combos.iter().take(14).cloned().collect(); std::thread::spawn(move || cs.iter().map(|(n, c)| $modname::gens_fingerprint(*n, *c)).collect::<Vec<_>>()) }).collect();
            for (ti, h) in hs.into_iter().enumerate() {
                match h.join() {
                    Ok(v) => { if v != reference { bad.push(format!("thread {} constructed different generators", ti)); } },
                    Err(_) => bad.push(format!("thread {} panicked constructing generators", ti)),
                }
            }
        }
        for (n, cap) in combos {
            bad.extend($modname::check_generators(&script, n, cap, seed, &mut all));
            n_checked += 2 * (n * cap) as u64;
        }
        bad.extend($extra(&script));
        println!("{}", json!({"group": $modname::GROUP, "generators_checked": n_checked, "distinct_encodings": all.len(), "mismatches": bad}));
    }};
}

/// blinding generators and the value generator of the Ristretto instantiation against the script
fn rist_pedersen_check(script: &Value) -> Vec<String> {
    use curve25519_dalek::{constants::RISTRETTO_BASEPOINT_POINT, ristretto::RistrettoPoint, traits::IsIdentity};
    use sha3::{Digest, Sha3_512};
    use tari_bulletproofs_plus::{generators::pedersen_gens::ExtensionDegree, ristretto::create_pedersen_gens_with_extension_degree};
    let mut bad = vec![];
    let labels: Vec<Vec<u8>> = script["mask_labels"].as_array().unwrap().iter().map(|l| l.as_array().unwrap().iter().map(|x| x.as_u64().unwrap() as u8).collect()).collect();
    let reference: Vec<RistrettoPoint> = labels.iter().map(|l| { let mut h = Sha3_512::new(); h.update(l); RistrettoPoint::from_uniform_bytes(&h.finalize().into()) }).collect();
    let mut seen = std::collections::HashSet::new();
    for t in 1..=6usize {
        let pc = create_pedersen_gens_with_extension_degree(ExtensionDegree::try_from(t).unwrap());
        if pc.h_base != RISTRETTO_BASEPOINT_POINT || pc.h_base_compressed != pc.h_base.compress() {
            bad.push(format!("degree {}: value generator is not the basepoint / its encoding", t));
        }
        if pc.g_base_vec.len() != t || pc.g_base_compressed_vec.len() != t || pc.extension_degree as usize != t {
            bad.push(format!("degree {}: {} blinding generators", t, pc.g_base_vec.len()));
            continue;
        }
        for k in 0..t {
            if pc.g_base_vec[k] != reference[k] {
                bad.push(format!("degree {}: blinding generator {} is not the documented derivation", t, k + 1));
            }
            if pc.g_base_compressed_vec[k] != pc.g_base_vec[k].compress() {
                bad.push(format!("degree {}: compressed blinding generator {} is not the encoding of the point", t, k + 1));
            }
            if pc.g_base_compressed_vec[k].is_identity() {
                bad.push(format!("degree {}: blinding generator {} is the identity", t, k + 1));
            }
            seen.insert(pc.g_base_compressed_vec[k].to_bytes());
        }
        seen.insert(pc.h_base_compressed.to_bytes());
    }
    if seen.len() != 7 {
        bad.push(format!("value and blinding generators are not pairwise distinct ({} distinct of 7)", seen.len()));
    }
    bad
}

fn main() {
    let args: Vec<String> = std::env::args().collect();
    let cmd = args.get(1).map(|s| s.as_str()).unwrap_or("");
    // panics in code under test are data: keep them quiet, they are caught and reported
    std::panic::set_hook(Box::new(|_| {}));
    match cmd {
        "run" => match arg(&args, "--group").unwrap_or("rist") {
            "fm" => run_cmd!(fmx, &args),
            _ => run_cmd!(rist, &args),
        },
        "cases" => match arg(&args, "--group").unwrap_or("rist") {
            "fm" => cases_cmd!(fmx, &args),
            _ => cases_cmd!(rist, &args),
        },
        "threads" => {
            // --reference: every call alone; --histories FILE: forced hand-off; --race N: free-running in this fresh process
            let mut evs: Vec<Value> = vec![];
            if let Some(n) = arg(&args, "--flood") {
                threads::FLOOD_N.store(n.parse().unwrap(), std::sync::atomic::Ordering::Relaxed);
            }
            if let Some(c) = arg(&args, "--reference") {
                let c: usize = c.parse().unwrap();
                // (a panic of the library in a call of the menu is a result, reported as such: no call of the menu may panic)
                let d = std::panic::catch_unwind(|| threads::reference(c)).unwrap_or_else(|_| "panic".to_string());
                evs.push(json!({"ev": "Ref", "scen": 0, "call": c, "digest": d}));
            }
            if let Some(path) = arg(&args, "--histories") {
                let lines: Vec<Value> = std::fs::read_to_string(path).unwrap().lines().filter(|l| !l.trim().is_empty()).map(|l| serde_json::from_str(l).unwrap()).collect();
                threads::run_histories(&lines, &mut evs, arg(&args, "--run-base").map(|s| s.parse().unwrap()).unwrap_or(0));
            }
            if let Some(n) = arg(&args, "--long") {
                let h = threads::long_history(3, n.parse().unwrap());
                threads::run_histories(&[h], &mut evs, 0);
            }
            if let Some(n) = arg(&args, "--race") {
                let run: u64 = arg(&args, "--run").map(|s| s.parse().unwrap()).unwrap_or(0);
                threads::race(n.parse().unwrap(), run, &mut evs);
            }
            let outp = arg(&args, "--out").expect("--out");
            let mut w = std::io::BufWriter::new(std::fs::File::create(outp).expect("trace file"));
            for e in &evs {
                writeln!(w, "{}", e).unwrap();
            }
            println!("{}", json!({"events": evs.len()}));
        },
        "codectrace" => {
            let outp = arg(&args, "--out").expect("--out");
            let seed: u64 = arg(&args, "--seed").map(|s| s.parse().unwrap()).unwrap_or(1);
            let count: usize = arg(&args, "--count").map(|s| s.parse().unwrap()).unwrap_or(60);
            let evs = match arg(&args, "--group").unwrap_or("rist") {
                "fm" => fmx::codec_trace(seed, count),
                _ => rist::codec_trace(seed, count),
            };
            let mut w = std::io::BufWriter::new(std::fs::File::create(outp).expect("trace file"));
            for e in &evs {
                writeln!(w, "{}", e).unwrap();
            }
            println!("{}", json!({"events": evs.len(), "accepted": evs.iter().filter(|e| e["accepted"] == true).count()}));
        },
        "noncekeys" => {
            // the harness's reference derivation must build exactly the keys the specification prints (MC_Nonce)
            let script: Value = serde_json::from_str(&std::fs::read_to_string(arg(&args, "--script").expect("--script")).unwrap()).unwrap();
            let mut bad: Vec<String> = vec![];
            let mut n = 0;
            for e in script["table"].as_array().unwrap() {
                let j = e["j"].as_i64().unwrap();
                let k = e["k"].as_i64().unwrap();
                let want: Vec<u8> = e["suffix"].as_array().unwrap().iter().map(|x| x.as_u64().unwrap() as u8).collect();
                let got = trace::nonce_key_suffix(if j < 0 { None } else { Some(j as u32) }, if k < 0 { None } else { Some(k as u32) });
                if got != want {
                    bad.push(format!("key suffix for ({}, {}, {}) differs from the specification", e["label"], j, k));
                }
                n += 1;
            }
            println!("{}", json!({"checked": n, "mismatches": bad}));
        },
        "vectors" => {
            let path = arg(&args, "--file").expect("--file");
            if args.iter().any(|a| a == "--gen-special") {
                let v = vectors::gen_special();
                std::fs::write(path, serde_json::to_string_pretty(&v).unwrap()).unwrap();
                println!("{}", json!({"generated": v.len()}));
            } else if args.iter().any(|a| a == "--gen") {
                let v = vectors::gen();
                std::fs::write(path, serde_json::to_string_pretty(&v).unwrap()).unwrap();
                println!("{}", json!({"generated": v.len()}));
            } else {
                let v: Vec<Value> = serde_json::from_str(&std::fs::read_to_string(path).unwrap()).unwrap();
                let mut bad = vectors::check(&v, 0);
                bad.extend(vectors::check(&v, 1).into_iter().map(|b| format!("{} [verifier capacity doubled]", b)));
                println!("{}", json!({"checked": 2 * v.len(), "mismatches": bad}));
            }
        },
        "mem" => {
            let outp = arg(&args, "--out").expect("--out");
            let seed: u64 = arg(&args, "--seed").map(|s| s.parse().unwrap()).unwrap_or(1);
            let (evs, n) = mem::run(seed, args.iter().any(|a| a == "--full"));
            let mut w = std::io::BufWriter::new(std::fs::File::create(outp).expect("trace file"));
            let tainted = evs.iter().filter(|e| e["ev"] == "Free" && e["taint"].as_array().map(|a| !a.is_empty()).unwrap_or(false)).count();
            for e in &evs {
                writeln!(w, "{}", e).unwrap();
            }
            println!("{}", json!({"scenarios": n, "events": evs.len(), "tainted_frees": tainted}));
        },
        "gens" => match arg(&args, "--group").unwrap_or("rist") {
            "fm" => gens_cmd!(fmx, &args, |_s: &Value| Vec::<String>::new()),
            _ => gens_cmd!(rist, &args, rist_pedersen_check),
        },
        "trace" => {
            // run scenarios on the free-module group with every instrument recording; write ndjson trace events
            let path = arg(&args, "--scen").expect("--scen");
            let outp = arg(&args, "--out").expect("--out");
            let seed: u64 = arg(&args, "--seed").map(|s| s.parse().unwrap()).unwrap_or(1);
            let arith = args.iter().any(|a| a == "--arith" || a == "--nonces");
            if args.iter().any(|a| a == "--nonces") {
                trace::LIGHT.store(true, std::sync::atomic::Ordering::Relaxed);
            }
            let which = arg(&args, "--calls").unwrap_or("verify");
            let mut ctx = fmx::Ctx::new(seed);
            let f = std::io::BufReader::new(std::fs::File::open(path).expect("scenario file"));
            let mut w = std::io::BufWriter::new(std::fs::File::create(outp).expect("trace file"));
            let first: u64 = arg(&args, "--first-index").map(|s| s.parse().unwrap()).unwrap_or(0);
            let mut n = first;
            let mut toks = util::Toks::default(); // tokens are equality classes over the whole trace file
            let mut ncalls = 0u64;
            let mut nev = 0u64;
            for line in f.lines() {
                let line = line.unwrap();
                if line.trim().is_empty() {
                    continue;
                }
                let v: Value = serde_json::from_str(&line).expect("scenario json");
                let mut recs: Vec<fmx::CallRec> = vec![];
                fm::clear_digests();
                let (_out, built) = fmx::run_scenario(&mut ctx, &v["sc"], n, None, Some(&mut recs));
                let mut evs: Vec<Value> = vec![];
                for r in &recs {
                    if r.kind == "prove" && which.contains("prove") {
                        let mi = r.info["member"].as_u64().unwrap() as usize;
                        let b = &built[mi];
                        let pc = fmx::pedersen_std(b.t);
                        let b32 = |v: &Value| -> [u8; 32] {
                            let mut a = [0u8; 32];
                            for (i, x) in v.as_array().unwrap().iter().enumerate() {
                                a[i] = x.as_u64().unwrap() as u8;
                            }
                            a
                        };
                        let inp = trace::ProverInputs {
                            n: b.n, t: b.t, m: b.m, cap: b.cap, vals: &b.vals, proms: &b.proms, blinds: &b.blinds,
                            commitments: r.info["commits"].as_array().unwrap().iter().map(b32).collect(),
                            h: b32(&r.info["H"]), g: r.info["G"].as_array().unwrap().iter().map(b32).collect(),
                            h_sym: pc.h_base.as_unit().unwrap(), g_syms: pc.g_base_vec.iter().map(|p| p.as_unit().unwrap()).collect(),
                            seed: b.seed,
                        };
                        trace::prove_trace(r, &inp, &mut toks, arith, &mut evs);
                        ncalls += 1;
                    }
                    if r.kind == "verify" && which.contains("verify") {
                        trace::verify_trace(r, &mut toks, arith, &mut evs);
                        ncalls += 1;
                    }
                }
                for e in evs.iter_mut() {
                    e["scen"] = json!(n - first);
                    writeln!(w, "{}", e).unwrap();
                    nev += 1;
                }
                n += 1;
            }
            println!("{}", json!({"scenarios": n - first, "calls": ncalls, "events": nev}));
        },
        _ => {
            let _ = writeln!(std::io::stderr(), "usage: bppv run --scen FILE [--group fm|rist] [--seed N] [--scale MODEL:REAL]");
            std::process::exit(2);
        },
    }
}
