//! I1 — `FP`: a free-module "group" over Z_l implementing the library's own curve traits.
//!
//! A point is a sparse vector  basis symbol -> Scalar.  `from_uniform_bytes` allocates one basis
//! symbol per distinct 64-byte input, so hash-to-group generators are independent symbols.
//! `compress` = SHA3-256 of the canonical sparse form, registered so `decompress` works for every
//! point ever compressed and fails for any other 32 bytes; identity <-> 32 zero bytes.
//! The discrete-log wall is gone: every scalar the library multiplies into a point is plain data.
//!
//! The backend's hard assertions of curve25519-dalek are reproduced (size-hint equality in
//! multiscalar_mul, table/scalar count equality in the precomputed MSM) so a padding miscount
//! panics here exactly where it would abort on the real curve.

use std::{
    borrow::Borrow,
    cell::RefCell,
    collections::{BTreeMap, HashMap},
    ops::{Add, AddAssign, Mul},
    sync::{
        atomic::{AtomicU64, Ordering},
        Mutex,
    },
};

use curve25519_dalek::{
    scalar::Scalar,
    traits::{Identity, MultiscalarMul, VartimeMultiscalarMul, VartimePrecomputedMultiscalarMul},
};
use sha3::{Digest, Sha3_256};
use subtle::{Choice, ConstantTimeEq};
use tari_bulletproofs_plus::{protocols::curve_point_protocol::CurvePointProtocol, traits::*};

#[derive(Clone, Debug, PartialEq, Eq, Default)]
pub struct FP(pub BTreeMap<u32, Scalar>);

#[derive(Clone, Copy, Debug, PartialEq, Eq, Hash)]
pub struct CFP(pub [u8; 32]);

#[derive(Default)]
pub struct Registry {
    pub by_uniform: HashMap<Vec<u8>, u32>,
    pub uniform_of: HashMap<u32, Vec<u8>>,
    pub names: Vec<String>,
    pub by_digest: HashMap<[u8; 32], FP>,
}

pub static REG: Mutex<Option<Registry>> = Mutex::new(None);

pub fn with_reg<T>(f: impl FnOnce(&mut Registry) -> T) -> T {
    let mut g = REG.lock().unwrap_or_else(|e| e.into_inner());
    f(g.get_or_insert_with(Registry::default))
}

/// Forget every registered compressed point (generator symbols are kept).
pub fn clear_digests() {
    with_reg(|r| r.by_digest.clear());
}

/// One final/commit MSM through a precomputation table, as seen at the trait boundary.
#[derive(Clone, Debug)]
pub struct MixedEvent {
    pub pid: u64,
    pub table: Vec<FP>,
    pub stat: Vec<Scalar>,
    pub dyn_s: Vec<Scalar>,
    pub dyn_p: Vec<FP>,
    pub out: FP,
}

#[derive(Clone, Debug)]
pub enum GEv {
    PrecompNew { pid: u64, len: usize },
    Mixed(MixedEvent),
    Msm { n: usize, out: FP },
    Decompress { bytes: [u8; 32], ok: bool },
}

thread_local! {
    static GREC: RefCell<Option<Vec<GEv>>> = const { RefCell::new(None) };
}
static NEXT_PID: AtomicU64 = AtomicU64::new(1);

fn gemit(f: impl FnOnce() -> GEv) {
    let _ = GREC.try_with(|r| {
        if let Ok(mut g) = r.try_borrow_mut() {
            if let Some(v) = g.as_mut() {
                v.push(f());
            }
        }
    });
}
pub fn rec_start() {
    GREC.with(|r| *r.borrow_mut() = Some(Vec::new()));
}
pub fn rec_stop() -> Vec<GEv> {
    GREC.with(|r| r.borrow_mut().take().unwrap_or_default())
}
pub fn rec_drain() -> Vec<GEv> {
    GREC.with(|r| match r.borrow_mut().as_mut() {
        Some(v) => std::mem::take(v),
        None => Vec::new(),
    })
}

impl FP {
    /// A fresh formal basis symbol.
    pub fn basis(name: &str) -> FP {
        with_reg(|r| {
            let i = r.names.len() as u32;
            r.names.push(name.to_string());
            let mut m = BTreeMap::new();
            m.insert(i, Scalar::ONE);
            FP(m)
        })
    }

    pub fn unit(i: u32) -> FP {
        let mut m = BTreeMap::new();
        m.insert(i, Scalar::ONE);
        FP(m)
    }

    fn norm(mut self) -> FP {
        self.0.retain(|_, v| *v != Scalar::ZERO);
        self
    }

    fn axpy(&mut self, s: &Scalar, p: &FP) {
        for (k, v) in &p.0 {
            *self.0.entry(*k).or_insert(Scalar::ZERO) += s * v;
        }
    }

    pub fn coord(&self, i: u32) -> Scalar {
        self.0.get(&i).copied().unwrap_or(Scalar::ZERO)
    }

    /// If this point is a single basis symbol with coefficient one, return the symbol.
    pub fn as_unit(&self) -> Option<u32> {
        if self.0.len() == 1 {
            let (k, v) = self.0.iter().next().unwrap();
            if *v == Scalar::ONE {
                return Some(*k);
            }
        }
        None
    }

    pub fn is_zero(&self) -> bool {
        self.0.values().all(|v| *v == Scalar::ZERO)
    }
}

impl Identity for FP {
    fn identity() -> Self {
        FP::default()
    }
}
impl Identity for CFP {
    fn identity() -> Self {
        CFP([0u8; 32])
    }
}
impl ConstantTimeEq for CFP {
    fn ct_eq(&self, o: &Self) -> Choice {
        self.0.ct_eq(&o.0)
    }
}
impl FixedBytesRepr for CFP {
    fn as_fixed_bytes(&self) -> &[u8; 32] {
        &self.0
    }

    fn from_fixed_bytes(b: [u8; 32]) -> Self {
        CFP(b)
    }
}
impl Compressable for FP {
    type Compressed = CFP;

    fn compress(&self) -> CFP {
        let p = self.clone().norm();
        if p.0.is_empty() {
            return CFP([0u8; 32]);
        }
        let mut h = Sha3_256::new();
        for (k, v) in &p.0 {
            h.update(k.to_le_bytes());
            h.update(v.as_bytes());
        }
        let d: [u8; 32] = h.finalize().into();
        with_reg(|r| {
            r.by_digest.entry(d).or_insert(p);
        });
        CFP(d)
    }
}
impl Decompressable for CFP {
    type Decompressed = FP;

    fn decompress(&self) -> Option<FP> {
        let res = if self.0 == [0u8; 32] {
            Some(FP::default())
        } else {
            with_reg(|r| r.by_digest.get(&self.0).cloned())
        };
        gemit(|| GEv::Decompress { bytes: self.0, ok: res.is_some() });
        res
    }
}
impl FromUniformBytes for FP {
    fn from_uniform_bytes(b: &[u8; 64]) -> Self {
        with_reg(|r| {
            let n = r.names.len() as u32;
            let i = *r.by_uniform.entry(b.to_vec()).or_insert(n);
            if i == n {
                r.names.push(format!("U{}", n));
                r.uniform_of.insert(n, b.to_vec());
            }
            FP::unit(i)
        })
    }
}
impl<'a> Mul<Scalar> for &'a FP {
    type Output = FP;

    fn mul(self, s: Scalar) -> FP {
        let mut o = FP::default();
        o.axpy(&s, self);
        o.norm()
    }
}
impl<'a> Add for &'a FP {
    type Output = FP;

    fn add(self, o: &FP) -> FP {
        let mut r = self.clone();
        r.axpy(&Scalar::ONE, o);
        r.norm()
    }
}
impl Add for FP {
    type Output = FP;

    fn add(self, o: FP) -> FP {
        &self + &o
    }
}
impl AddAssign for FP {
    fn add_assign(&mut self, o: FP) {
        self.axpy(&Scalar::ONE, &o);
        let t = std::mem::take(self).norm();
        *self = t;
    }
}

fn msm_vec(s: &[Scalar], p: &[FP]) -> FP {
    let mut o = FP::default();
    for (a, b) in s.iter().zip(p.iter()) {
        o.axpy(a, b);
    }
    o.norm()
}

fn msm<I, J>(s: I, p: J) -> FP
where
    I: IntoIterator,
    I::Item: Borrow<Scalar>,
    J: IntoIterator,
    J::Item: Borrow<FP>,
{
    // mirror curve25519-dalek: size hints of both iterators must be exact and equal
    let s = s.into_iter();
    let p = p.into_iter();
    let (s_lo, s_hi) = s.size_hint();
    let (p_lo, p_hi) = p.size_hint();
    assert_eq!(s_lo, p_lo);
    assert_eq!(s_hi, Some(s_lo));
    assert_eq!(p_hi, Some(p_lo));
    let s: Vec<Scalar> = s.map(|x| *x.borrow()).collect();
    let p: Vec<FP> = p.map(|x| x.borrow().clone()).collect();
    let out = msm_vec(&s, &p);
    gemit(|| GEv::Msm { n: s.len(), out: out.clone() });
    out
}

impl MultiscalarMul for FP {
    type Point = FP;

    fn multiscalar_mul<I, J>(s: I, p: J) -> FP
    where
        I: IntoIterator,
        I::Item: Borrow<Scalar>,
        J: IntoIterator,
        J::Item: Borrow<FP>,
    {
        msm(s, p)
    }
}
impl VartimeMultiscalarMul for FP {
    type Point = FP;

    fn optional_multiscalar_mul<I, J>(s: I, p: J) -> Option<FP>
    where
        I: IntoIterator,
        I::Item: Borrow<Scalar>,
        J: IntoIterator<Item = Option<FP>>,
    {
        let s = s.into_iter();
        let p = p.into_iter();
        let (s_lo, s_hi) = s.size_hint();
        let (p_lo, p_hi) = p.size_hint();
        assert_eq!(s_lo, p_lo);
        assert_eq!(s_hi, Some(s_lo));
        assert_eq!(p_hi, Some(p_lo));
        let s: Vec<Scalar> = s.map(|x| *x.borrow()).collect();
        let p: Option<Vec<FP>> = p.collect();
        let p = p?;
        let out = msm_vec(&s, &p);
        gemit(|| GEv::Msm { n: s.len(), out: out.clone() });
        Some(out)
    }
}

pub struct Pre {
    pub pid: u64,
    pub table: Vec<FP>,
}
impl VartimePrecomputedMultiscalarMul for Pre {
    type Point = FP;

    fn new<I>(sp: I) -> Self
    where
        I: IntoIterator,
        I::Item: Borrow<FP>,
    {
        let table: Vec<FP> = sp.into_iter().map(|x| x.borrow().clone()).collect();
        let pid = NEXT_PID.fetch_add(1, Ordering::Relaxed);
        gemit(|| GEv::PrecompNew { pid, len: table.len() });
        Pre { pid, table }
    }

    fn optional_mixed_multiscalar_mul<I, J, K>(&self, ss: I, ds: J, dp: K) -> Option<FP>
    where
        I: IntoIterator,
        I::Item: Borrow<Scalar>,
        J: IntoIterator,
        J::Item: Borrow<Scalar>,
        K: IntoIterator<Item = Option<FP>>,
    {
        let ss: Vec<Scalar> = ss.into_iter().map(|x| *x.borrow()).collect();
        let ds: Vec<Scalar> = ds.into_iter().map(|x| *x.borrow()).collect();
        let dp: Option<Vec<FP>> = dp.into_iter().collect();
        let dp = dp?;
        // mirror curve25519-dalek's precomputed Straus: both counts must match exactly
        assert_eq!(self.table.len(), ss.len());
        assert_eq!(dp.len(), ds.len());
        let mut o = msm_vec(&ss, &self.table);
        o.axpy(&Scalar::ONE, &msm_vec(&ds, &dp));
        let out = o.norm();
        gemit(|| {
            GEv::Mixed(MixedEvent {
                pid: self.pid,
                table: self.table.clone(),
                stat: ss.clone(),
                dyn_s: ds.clone(),
                dyn_p: dp.clone(),
                out: out.clone(),
            })
        });
        Some(out)
    }
}
impl Precomputable for FP {
    type Precomputation = Pre;
}
impl CurvePointProtocol for FP {}
