//! C19: golden vectors. `gen` records (statement, proof bytes, masks) from the tree it is built against (done once, on
//! the pinned release); `check` verifies the recorded proofs and recovers the recorded masks on the current tree.

use std::convert::TryFrom;

use curve25519_dalek::{
    ristretto::{CompressedRistretto, RistrettoPoint},
    scalar::Scalar,
};
use merlin::Transcript;
use rand_chacha::ChaCha12Rng;
use rand_core::SeedableRng;
use serde_json::{json, Value};
use tari_bulletproofs_plus::{
    commitment_opening::CommitmentOpening,
    generators::pedersen_gens::ExtensionDegree,
    range_parameters::RangeParameters,
    range_proof::{RangeProof, VerifyAction},
    range_statement::RangeStatement,
    range_witness::RangeWitness,
    ristretto::create_pedersen_gens_with_extension_degree,
};

use crate::util::hash_scalar;

type P = RistrettoPoint;

fn hex(b: &[u8]) -> String {
    b.iter().map(|x| format!("{:02x}", x)).collect()
}
fn unhex(s: &str) -> Vec<u8> {
    (0..s.len() / 2).map(|i| u8::from_str_radix(&s[2 * i..2 * i + 2], 16).unwrap()).collect()
}

pub fn configs() -> Vec<(usize, usize, usize, usize, bool)> {
    // (bits, aggregation, capacity, degree, seeded)
    let mut v = vec![];
    for &n in &[1usize, 2, 4, 8, 16, 32, 64] {
        for &(m, cap) in &[(1usize, 1usize), (1, 4), (2, 2), (4, 8), (8, 8)] {
            for &t in &[1usize, 2, 3, 6] {
                if n * m == 1 {
                    continue; // cannot be carried as bytes (known finding C15)
                }
                v.push((n, m, cap, t, m == 1 && (t + n) % 2 == 0));
            }
        }
    }
    v
}

pub fn gen() -> Vec<Value> {
    let mut out = vec![];
    for (i, (n, m, cap, t, seeded)) in configs().into_iter().enumerate() {
        let pc = create_pedersen_gens_with_extension_degree(ExtensionDegree::try_from(t).unwrap());
        let params = RangeParameters::<P>::init(n, cap, pc).unwrap();
        let vals: Vec<u64> = (0..m).map(|j| if n == 64 { u64::MAX - 977 * j as u64 } else { ((1u64 << n) - 1).saturating_sub(j as u64 % (1u64 << n)) }).collect();
        let proms: Vec<Option<u64>> = (0..m).map(|j| match j % 3 { 0 => None, 1 => Some(vals[j] / 2), _ => Some(vals[j]) }).collect();
        let blinds: Vec<Vec<Scalar>> = (0..m).map(|j| (0..t).map(|k| hash_scalar(&[b"vector-blinding", &(i as u64).to_le_bytes(), &(j as u64).to_le_bytes(), &(k as u64).to_le_bytes()])).collect()).collect();
        let cs: Vec<P> = (0..m).map(|j| params.pc_gens().commit(&Scalar::from(vals[j]), &blinds[j]).unwrap()).collect();
        let seed = if seeded { Some(hash_scalar(&[b"vector-seed", &(i as u64).to_le_bytes()])) } else { None };
        let label = format!("golden vector {}", i % 3);
        let stmt = RangeStatement::init(params, cs.clone(), proms.clone(), seed).unwrap();
        let w = RangeWitness::init((0..m).map(|j| CommitmentOpening::new(vals[j], blinds[j].clone())).collect()).unwrap();
        let mut rng = ChaCha12Rng::seed_from_u64(1000 + i as u64);
        let lb: &'static [u8] = Box::leak(label.clone().into_bytes().into_boxed_slice());
        let proof = RangeProof::<P>::prove_with_rng(&mut Transcript::new(lb), &stmt, &w, &mut rng).unwrap();
        out.push(json!({"id": i, "bits": n, "aggregation": m, "capacity": cap, "degree": t, "label": label,
            "commitments": cs.iter().map(|c| hex(c.compress().as_bytes())).collect::<Vec<_>>(),
            "promises": proms, "seed": seed.map(|s| hex(s.as_bytes())),
            "proof": hex(&proof.to_bytes()),
            "mask": if seeded { Some(blinds[0].iter().map(|b| hex(b.as_bytes())).collect::<Vec<_>>()) } else { None }}));
    }
    out
}

/// Vectors with special VALUES (recorded from the same pinned release): a commitment that is the identity point (value 0
/// under all-zero blindings) at some position, all-zero and all-one values, seeds that are the zero scalar, one and the
/// largest canonical scalar, promises equal to the value at every position.
pub fn gen_special() -> Vec<Value> {
    let mut out = vec![];
    let mut i = 1000usize;
    for &(n, m, cap, t) in &[(8usize, 1usize, 1usize, 1usize), (64, 1, 1, 2), (8, 4, 4, 1), (32, 4, 8, 2), (64, 2, 2, 6), (2, 8, 8, 1), (16, 1, 2, 3)] {
        for kind in ["identity", "zeros", "ones", "seed0", "seed1", "seedmax", "promeq"] {
            if kind.starts_with("seed") && m != 1 {
                continue;
            }
            i += 1;
            let pc = create_pedersen_gens_with_extension_degree(ExtensionDegree::try_from(t).unwrap());
            let params = RangeParameters::<P>::init(n, cap, pc).unwrap();
            let maxv = if n == 64 { u64::MAX } else { (1u64 << n) - 1 };
            let vals: Vec<u64> = (0..m).map(|j| match kind {
                "identity" => if j == m - 1 { 0 } else { maxv / 3 },
                "zeros" => 0,
                "ones" => maxv,
                _ => maxv - (j as u64 % (maxv / 2 + 1)),
            }).collect();
            let proms: Vec<Option<u64>> = (0..m).map(|j| if kind == "promeq" { Some(vals[j]) } else if j % 2 == 1 { Some(vals[j] / 2) } else { None }).collect();
            let blinds: Vec<Vec<Scalar>> = (0..m).map(|j| (0..t).map(|k| {
                if kind == "identity" && j == m - 1 { Scalar::ZERO } else { hash_scalar(&[b"vector-blinding", &(i as u64).to_le_bytes(), &(j as u64).to_le_bytes(), &(k as u64).to_le_bytes()]) }
            }).collect()).collect();
            let cs: Vec<P> = (0..m).map(|j| params.pc_gens().commit(&Scalar::from(vals[j]), &blinds[j]).unwrap()).collect();
            let seed = match kind {
                "seed0" => Some(Scalar::ZERO),
                "seed1" => Some(Scalar::ONE),
                "seedmax" => Some(-Scalar::ONE),
                "identity" if m == 1 => Some(hash_scalar(&[b"vector-seed", &(i as u64).to_le_bytes()])),
                _ => None,
            };
            let label = format!("golden vector {}", i % 3);
            let stmt = RangeStatement::init(params, cs.clone(), proms.clone(), seed).unwrap();
            let w = RangeWitness::init((0..m).map(|j| CommitmentOpening::new(vals[j], blinds[j].clone())).collect()).unwrap();
            let mut rng = ChaCha12Rng::seed_from_u64(1000 + i as u64);
            let lb: &'static [u8] = Box::leak(label.clone().into_bytes().into_boxed_slice());
            let proof = RangeProof::<P>::prove_with_rng(&mut Transcript::new(lb), &stmt, &w, &mut rng).unwrap();
            out.push(json!({"id": i, "kind": kind, "bits": n, "aggregation": m, "capacity": cap, "degree": t, "label": label,
                "commitments": cs.iter().map(|c| hex(c.compress().as_bytes())).collect::<Vec<_>>(),
                "promises": proms, "seed": seed.map(|s| hex(s.as_bytes())),
                "proof": hex(&proof.to_bytes()),
                "mask": if seed.is_some() { Some(blinds[0].iter().map(|b| hex(b.as_bytes())).collect::<Vec<_>>()) } else { None }}));
        }
    }
    out
}

/// returns mismatch descriptions
pub fn check(vectors: &[Value], cap_shift: usize) -> Vec<String> {
    let mut bad = vec![];
    for v in vectors {
        let id = v["id"].as_u64().unwrap();
        let n = v["bits"].as_u64().unwrap() as usize;
        let t = v["degree"].as_u64().unwrap() as usize;
        let m = v["aggregation"].as_u64().unwrap() as usize;
        // any capacity >= m must do (C12); cap_shift selects a different one than recorded
        let cap = (v["capacity"].as_u64().unwrap() as usize) << cap_shift;
        let r = std::panic::catch_unwind(|| -> Result<(), String> {
            let pc = create_pedersen_gens_with_extension_degree(ExtensionDegree::try_from(t).unwrap());
            let params = RangeParameters::<P>::init(n, cap.max(m), pc).map_err(|e| e.to_string())?;
            let cs: Vec<P> = v["commitments"].as_array().unwrap().iter().map(|c| CompressedRistretto::from_slice(&unhex(c.as_str().unwrap())).unwrap().decompress().unwrap()).collect();
            let proms: Vec<Option<u64>> = v["promises"].as_array().unwrap().iter().map(|p| p.as_u64()).collect();
            let seed = v["seed"].as_str().map(|s| {
                let mut a = [0u8; 32];
                a.copy_from_slice(&unhex(s));
                Scalar::from_canonical_bytes(a).unwrap()
            });
            let stmt = RangeStatement::init(params, cs, proms, seed).map_err(|e| e.to_string())?;
            let proof = RangeProof::<P>::from_bytes(&unhex(v["proof"].as_str().unwrap())).map_err(|e| format!("recorded proof no longer decodes: {}", e))?;
            let lb: &'static [u8] = Box::leak(v["label"].as_str().unwrap().to_string().into_bytes().into_boxed_slice());
            for action in [VerifyAction::VerifyOnly, VerifyAction::RecoverAndVerify] {
                let masks = RangeProof::<P>::verify_batch(&mut [Transcript::new(lb)], std::slice::from_ref(&stmt), std::slice::from_ref(&proof), action)
                    .map_err(|e| format!("recorded proof no longer verifies: {}", e))?;
                if action == VerifyAction::RecoverAndVerify {
                    let got = masks[0].as_ref().map(|mk| mk.blindings().unwrap().iter().map(|b| hex(b.as_bytes())).collect::<Vec<_>>());
                    let want = v["mask"].as_array().map(|a| a.iter().map(|x| x.as_str().unwrap().to_string()).collect::<Vec<_>>());
                    if got != want {
                        return Err("recovered mask differs from the recorded one".to_string());
                    }
                }
            }
            Ok(())
        });
        match r {
            Ok(Ok(())) => {},
            Ok(Err(e)) => bad.push(format!("vector {} (bits {} aggregation {} degree {}): {}", id, n, m, t, e)),
            Err(_) => bad.push(format!("vector {}: panic", id)),
        }
    }
    bad
}
