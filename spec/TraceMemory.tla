---- MODULE TraceMemory ----
(***************************************************************************************************)
(* Trace validation of heap releases recorded by the tracing global allocator (I4) while the library  *)
(* handles secrets (C20).  Events: Arm{scenario, secrets}, Free{size, taint}, Frees{count}, Inline{..},*)
(* Disarm.  A `Free` is a step of Memory.tla's machine only if the block holds no secret; the inline  *)
(* statement seed must be gone after the statement is dropped.                                        *)
(***************************************************************************************************)
EXTENDS Integers, Sequences, FiniteSets, TLC, Json, IOUtils
Rec == ndJsonDeserialize(IOEnv.TRACE)
NRec == Len(Rec)
VARIABLES l, armed, nfree
vars == <<l, armed, nfree>>
Init == l = 1 /\ armed = FALSE /\ nfree = 0
Is(name) == l <= NRec /\ Rec[l].ev = name
ArmEv == Is("Arm") /\ ~armed /\ armed' = TRUE /\ nfree' = 0 /\ l' = l + 1
FreeEv == Is("Free") /\ armed /\ Rec[l].taint = <<>> /\ nfree' = nfree + 1 /\ l' = l + 1 /\ UNCHANGED armed
\* a run of releases none of which held a secret, logged as one event (long scenarios)
FreesEv == Is("Frees") /\ armed /\ Rec[l].count >= 1 /\ nfree' = nfree + Rec[l].count /\ l' = l + 1 /\ UNCHANGED armed
InlineEv == Is("Inline") /\ Rec[l].found = <<>> /\ l' = l + 1 /\ UNCHANGED <<armed, nfree>>
\* a scenario in which nothing at all was released did not exercise anything
DisarmEv == Is("Disarm") /\ armed /\ nfree = Rec[l].frees /\ nfree > 0 /\ armed' = FALSE /\ l' = l + 1 /\ UNCHANGED nfree
Next == ArmEv \/ FreeEv \/ FreesEv \/ InlineEv \/ DisarmEv
Spec == Init /\ [][Next]_vars
ASSUME TLCSet(41, 0)
Progress == TLCSet(41, IF TLCGet(41) < l THEN l ELSE TLCGet(41))
Accepted == IF TLCGet(41) = NRec + 1 THEN TRUE
            ELSE PrintT(<<"REJECTED", TLCGet(41), IF TLCGet(41) <= NRec THEN [ev |-> Rec[TLCGet(41)].ev, scen |-> Rec[TLCGet(41)].scen] ELSE "end">>) /\ FALSE
====
