---- MODULE MC_Malformed ----
(***************************************************************************************************)
(* C02 on statements that did not come out of the validating constructor.  RangeStatement's fields  *)
(* are public, so a statement whose promise list does not have one entry per commitment can reach    *)
(* the verifier.  The published relation has one term  -e^2 z^(2(j+1)) y^(nm+1) (C_j - p_j H)  per    *)
(* COMMITMENT; a verifier that pairs commitments with promise entries and stops at the shorter list   *)
(* checks a different relation (C_j replaced by the identity) and accepts a proof made without any    *)
(* opening of C_j.  The abstract verifier below states what is allowed: it may accept only a          *)
(* statement with exactly one promise entry per commitment; for any other it must not accept (an      *)
(* error and the multiscalar backend's length assertion both count as "not accepted": C16 makes no    *)
(* promise about statements that bypass the constructors).  `PairAndStop` is the seeded defect.       *)
(* Every state is one case, printed and executed: the harness's independent prover builds the proof   *)
(* most favourable to the defect (transcript of exactly the malformed statement; commitments without  *)
(* a promise entry treated as absent, while they commit to 2^40 + 3).                                 *)
(***************************************************************************************************)
EXTENDS Integers, Sequences, FiniteSets, TLC, Json
CONSTANTS Tier, PairAndStop
Quick == Tier = "quick"
\* which commitments' relation terms a verifier evaluates
TermsChecked(m, np) == IF PairAndStop THEN 1..(IF np < m THEN np ELSE m) ELSE 1..m
\* the forger satisfies exactly the terms of the commitments that have a promise entry (j <= np); the others are out of range
ForgerSatisfies(m, np) == 1..(IF np < m THEN np ELSE m)
WellFormed(m, np) == np = m
Verdict(m, np) ==
  IF PairAndStop THEN (IF np > m THEN "notok" ELSE IF TermsChecked(m, np) \subseteq ForgerSatisfies(m, np) THEN "ok" ELSE "notok")
  ELSE IF ~WellFormed(m, np) THEN "notok"
  ELSE IF TermsChecked(m, np) \subseteq ForgerSatisfies(m, np) THEN "ok" ELSE "notok"
Cases == { [op |-> "stmt_forge", n |-> n, t |-> t, m |-> m, np |-> np, expect |-> Verdict(m, np)] :
             n \in (IF Quick THEN {2, 8} ELSE {1, 2, 8, 64}), t \in (IF Quick THEN {1, 2} ELSE {1, 2, 6}),
             m \in (IF Quick THEN {1, 2, 4} ELSE {1, 2, 4, 8}), np \in 0..9 }
VARIABLES c, pc
Init == pc = "pick" /\ c = [op |-> "none"]
\* (bits*aggregation = 1 gives a proof with zero folding rounds, which the byte encoding cannot carry: known finding of C15)
Next == \/ pc = "pick" /\ pc' = "done" /\ c' \in {x \in Cases : x.np <= x.m + 1 /\ x.n * x.m >= 2}
        \/ pc = "done" /\ UNCHANGED <<c, pc>>
Spec == Init /\ [][Next]_<<c, pc>>
\* soundness: an accepted case has every commitment's term satisfied by the prover, i.e. no out-of-range commitment
Sound == pc = "done" => (c.expect = "ok" => ForgerSatisfies(c.m, c.np) = 1..c.m)
Emit == pc = "done" => PrintT(<<"REPLAY", ToJson(c)>>)
====
