---- MODULE CodecUnbounded ----
(***************************************************************************************************)
(* C15, unbounded: the same decoder machine as MC_Codec.tla with the total length, the first byte   *)
(* and the index of the non-canonical chunk left SYMBOLIC (any natural number).  The machine takes  *)
(* at most 14 steps whatever the length (the tag is at most 6), so a bounded symbolic check of       *)
(* length 15 with Apalache decides `acceptance <=> closed form` for byte strings of EVERY length.    *)
(***************************************************************************************************)
EXTENDS Integers

VARIABLES
  \* @type: Str;
  pc,
  \* @type: Int;
  len,
  \* @type: Int;
  fb,
  \* @type: Int;
  nc,
  \* @type: Int;
  tag,
  \* @type: Int;
  pos,
  \* @type: Int;
  pairs,
  \* @type: Str;
  res,
  \* @type: Int;
  steps

NCh == IF len = 0 THEN 0 ELSE (len - 1) \div 32
Rem == IF len = 0 THEN 0 ELSE (len - 1) % 32

Init == /\ pc = "first" /\ tag = 0 /\ pos = 0 /\ pairs = 0 /\ res = "none"
        /\ steps = 0 /\ len \in Nat /\ fb \in 0..255 /\ nc \in Nat /\ nc <= NCh

Fail == pc' = "done" /\ res' = "err" /\ UNCHANGED <<len, fb, nc, tag, pos, pairs>>

First == /\ pc = "first"
         /\ IF len = 0 \/ fb < 1 \/ fb > 6 THEN Fail
            ELSE pc' = "d1" /\ tag' = fb /\ pos' = 0 /\ UNCHANGED <<len, fb, nc, res, pairs>>
ScalarOk == pos + 1 <= NCh /\ nc # pos + 1
D1 == /\ pc = "d1"
      /\ IF pos = tag THEN pc' = "points" /\ UNCHANGED <<len, fb, nc, res, tag, pos, pairs>>
         ELSE IF ScalarOk THEN pc' = "d1" /\ pos' = pos + 1 /\ UNCHANGED <<len, fb, nc, res, tag, pairs>> ELSE Fail
Points == /\ pc = "points"
          /\ IF pos + 3 <= NCh THEN pc' = "r1s1" /\ pos' = pos + 3 /\ UNCHANGED <<len, fb, nc, res, tag, pairs>> ELSE Fail
R1S1 == /\ pc = "r1s1"
        /\ IF pos < tag + 5
           THEN (IF ScalarOk THEN pc' = "r1s1" /\ pos' = pos + 1 /\ UNCHANGED <<len, fb, nc, res, tag, pairs>> ELSE Fail)
           ELSE pc' = "pairs" /\ pairs' = (NCh - pos) \div 2 /\ pos' = pos + 2 * ((NCh - pos) \div 2) /\ UNCHANGED <<len, fb, nc, res, tag>>
Pairs == /\ pc = "pairs"
         /\ IF pairs = 0 THEN Fail
            ELSE IF NCh - pos > 0 \/ Rem > 0 THEN Fail
            ELSE pc' = "done" /\ res' = "ok" /\ UNCHANGED <<len, fb, nc, tag, pos, pairs>>
Stutter == pc = "done" /\ UNCHANGED <<pc, len, fb, nc, tag, pos, pairs, res>>
Next == (First \/ D1 \/ Points \/ R1S1 \/ Pairs \/ Stutter) /\ steps' = steps + 1

\* closed form of the acceptance set (C15), for every length: k = (NCh - 5 - fb) / 2 >= 1
Closed == /\ len >= 1 /\ fb >= 1 /\ fb <= 6 /\ Rem = 0
          /\ (NCh - 5 - fb) % 2 = 0 /\ NCh - 5 - fb >= 2
          /\ (nc = 0 \/ ~(nc <= fb \/ nc = fb + 4 \/ nc = fb + 5))
C15 == pc = "done" => ((res = "ok") <=> Closed)
\* the machine has terminated after 14 steps whatever the input
Terminated == steps >= 14 => pc = "done"
Both == C15 /\ Terminated
\* a deliberately wrong closed form (k >= 0): must be refuted
ClosedWrong == /\ len >= 1 /\ fb >= 1 /\ fb <= 6 /\ Rem = 0 /\ (NCh - 5 - fb) % 2 = 0 /\ NCh - 5 - fb >= 0
               /\ (nc = 0 \/ ~(nc <= fb \/ nc = fb + 4 \/ nc = fb + 5))
C15Wrong == pc = "done" => ((res = "ok") <=> ClosedWrong)
====
