---- MODULE MC_Histories ----
(***************************************************************************************************)
(* C18: call histories.  The library's calls are modelled as pure functions of their arguments (and  *)
(* of the RNG stream handed in): the only state a call may read that it did not receive is the        *)
(* initialise-once generator tables (MC_Once).  A history is a sequence of (thread, call) steps at    *)
(* call granularity; its predicted outcome is that every step returns the isolated result of its      *)
(* call.  `Sticky` models a seeded defect: a hidden cache keyed by only part of the argument (so the   *)
(* first call of a key class decides the result of later ones) - the invariant then fails.            *)
(* Every history is printed and executed on real threads with the same hand-off order.                *)
(***************************************************************************************************)
EXTENDS Integers, Sequences, FiniteSets, TLC, Json
CONSTANTS NThreads, MaxLen, Sticky, Tier
\* call menu (ids are interpreted by the harness): parameter sets sharing bit length or capacity, proofs with a fixed
\* RNG stream, verifications, generator accessors
Calls == 0..19
Class(c) == IF c \in {0, 1} THEN "n8" ELSE IF c = 2 THEN "n16" ELSE IF c = 3 THEN "n64" ELSE "other"   \* calls 0 and 1 share the bit length
VARIABLES hist, cache, res
vars == <<hist, cache, res>>
Init == hist = <<>> /\ cache = [k \in {} |-> 0] /\ res = <<>>
Isolated(c) == c                                  \* the result of call c run alone, as an uninterpreted value
Step(th, c) ==
  /\ Len(hist) < MaxLen
  /\ hist' = Append(hist, [th |-> th, call |-> c])
  /\ IF Sticky /\ Class(c) # "other"
     THEN IF Class(c) \in DOMAIN cache
          THEN res' = Append(res, cache[Class(c)]) /\ UNCHANGED cache
          ELSE res' = Append(res, Isolated(c)) /\ cache' = [k \in (DOMAIN cache) \cup {Class(c)} |-> IF k = Class(c) THEN Isolated(c) ELSE cache[k]]
     ELSE res' = Append(res, Isolated(c)) /\ UNCHANGED cache
Next == \E th \in 1..NThreads, c \in Calls : Step(th, c)
Spec == Init /\ [][Next]_vars
Pure == \A i \in 1..Len(hist) : res[i] = Isolated(hist[i].call)
\* print complete histories only; quick tier: those whose steps touch at least two different calls
Emit == (Len(hist) = MaxLen /\ (Tier # "quick" \/ Cardinality({hist[i].call : i \in 1..MaxLen}) >= 2)) =>
          PrintT(<<"REPLAY", ToJson([threads |-> NThreads, steps |-> hist])>>)
====
