---- MODULE Memory ----
(***************************************************************************************************)
(* C20: lifecycle of heap blocks that hold secrets.  A block is allocated by an owner, secrets are   *)
(* copied into it, it may be wiped, it is freed.  Owners are the library's secret-bearing objects:   *)
(* a `ZeroizeOnDrop` / `Zeroizing` owner wipes before it frees; a "plain" owner (a temporary          *)
(* `Vec<u8>` made from a secret, as in a seeded-defect configuration) frees without wiping.          *)
(* Invariant: no block is freed while it still holds a secret.                                       *)
(* The same module gives the trace specification its step: a recorded `Free` with a non-empty taint   *)
(* is not a behaviour of this machine.                                                               *)
(***************************************************************************************************)
EXTENDS Integers, Sequences, FiniteSets, TLC
CONSTANTS Owners,      \* set of records [name, wipes (BOOLEAN), secret]
          MaxBlocks

VARIABLES heap,        \* block id -> [owner, taint (set of secrets), live]
          leaked       \* secrets that were in a block at the moment it was freed
vars == <<heap, leaked>>
Init == heap = [b \in {} |-> 0] /\ leaked = {}
Ext(f, x, v) == [y \in (DOMAIN f) \cup {x} |-> IF y = x THEN v ELSE f[y]]

Alloc(o) == /\ Cardinality(DOMAIN heap) < MaxBlocks
            /\ LET b == Cardinality(DOMAIN heap) + 1 IN heap' = Ext(heap, b, [owner |-> o, taint |-> {}, live |-> TRUE])
            /\ UNCHANGED leaked
CopySecret(b) == /\ heap[b].live /\ heap' = [heap EXCEPT ![b].taint = @ \cup {heap[b].owner.secret}] /\ UNCHANGED leaked
Wipe(b) == /\ heap[b].live /\ heap[b].owner.wipes /\ heap' = [heap EXCEPT ![b].taint = {}] /\ UNCHANGED leaked
\* a wiping owner frees only after its wipe; a plain owner just frees
Free(b) == /\ heap[b].live /\ (heap[b].owner.wipes => heap[b].taint = {})
           /\ heap' = [heap EXCEPT ![b].live = FALSE] /\ leaked' = leaked \cup heap[b].taint
Next == \/ \E o \in Owners : Alloc(o)
        \/ \E b \in DOMAIN heap : CopySecret(b) \/ Wipe(b) \/ Free(b)
Spec == Init /\ [][Next]_vars
NoLeak == leaked = {}
====
