---- MODULE TraceVerify ----
(***************************************************************************************************)
(* Trace validation of `verify_batch` executions recorded from the library running over the         *)
(* free-module group with the instrumented merlin (impl -> spec, DESIGN §5.1).                      *)
(*                                                                                                 *)
(* Events of one call: VCall (the inputs: per member configuration, response scalars, tokens of     *)
(* every datum), the merlin events in the order they happened, then VMSM (the inputs of the final   *)
(* multiscalar multiplication as seen at the curve-trait boundary: one scalar per table position,   *)
(* per-role sums of the dynamic scalars) or VNoMSM, then VRet.                                      *)
(*                                                                                                 *)
(* Checked while consuming them:                                                                    *)
(*  dependency (C04): at every challenge of member i everything Transcript!Required lists has been  *)
(*     absorbed into that member's transcript;                                                      *)
(*  weights (C08): the value member i contributes to the weight transcript is an output of a        *)
(*     generator built on i's transcript after r1, s1, d1[*] were absorbed; the weight generator is *)
(*     built after all members contributed; w_i (DEFINED as minus the scalar on B_i) is non-zero,   *)
(*     is the reduction of one of its outputs, distinct outputs for distinct members;               *)
(*  relation (C02 C05 C07 C12): with challenges = reduction mod l of the recorded challenge bytes,  *)
(*     every scalar of the final MSM equals  sum_i w_i * Ref_i(symbol)  (BPVSteps, in BigField),     *)
(*     table positions beyond the largest member carry zero, nothing else enters the MSM, and the   *)
(*     verdict is "accept" iff the MSM result is the identity;                                      *)
(*  strict (C19, Strict = TRUE): the operation sequence of every transcript is exactly              *)
(*     Transcript!Script (labels, lengths, order), the weight transcript has the released label.    *)
(***************************************************************************************************)
EXTENDS TraceBase, BigField
CONSTANTS Strict, CheckArith, CheckLayout,
          WeightsOnly    \* long batches: of the final check only the weights (read off the scalars on the B points) are examined

T == INSTANCE Transcript
RECURSIVE Pw2(_)
Pw2(k) == IF k = 0 THEN 1 ELSE 2 * Pw2(k-1)
TwoPow(b) == [i \in 1..22 |-> IF i = (b \div 12) + 1 THEN Pw2(b % 12) ELSE 0]
S == INSTANCE BPVSteps WITH FZero <- Zero21, FOne <- One21, FTwoPow <- TwoPow

VARIABLES pc, mi, r, cfg, wtid, cx, tb, dd, sc, acc, wts,
          allp      \* expected <<point token, scalar>> pairs of every dynamic role of every member processed so far
vars == <<l, scripts, abs, chal, rng, pc, mi, r, cfg, wtid, cx, tb, dd, sc, acc, wts, allp>>
avars == <<mi, r, cx, tb, dd, sc, acc, wts, allp>>

Init == /\ l = 1 /\ TInit /\ pc = "idle" /\ mi = 0 /\ r = 0 /\ cfg = 0 /\ wtid = 0
        /\ cx = <<>> /\ tb = <<>> /\ dd = <<>> /\ sc = <<>> /\ acc = <<>> /\ wts = <<>> /\ allp = <<>>

\* the call being validated: `cfg` holds the POSITION of its VCall event (the record itself - hundreds of members for a long batch -
\* stays in the constant Rec instead of being copied into every state)
Cfg == Rec[cfg]
NP == Cfg.np
Mem(i) == Cfg.members[i]
Verifying == Cfg.mode # "RecoverOnly"
MemberOfTid(tid) == CHOOSE i \in 1..Len(Cfg.tids) : Cfg.tids[i] = tid
IsMemberTid(tid) == \E i \in 1..Len(Cfg.tids) : Cfg.tids[i] = tid /\ i <= NP

\* ---- the call ------------------------------------------------------------------------------------
VCallEv == /\ Is("VCall") /\ pc = "idle"
           /\ cfg' = l /\ TReset /\ wtid' = 0 /\ pc' = "run" /\ l' = l + 1
           /\ UNCHANGED avars

\* ---- merlin events during the call -----------------------------------------------------------------
\* number of contributions already appended to the weight transcript (its first operation is merlin's own dom-sep)
NContrib == IF wtid = 0 THEN 0 ELSE Len(scripts[wtid]) - 1

DepOk == \* guard evaluated on the current state for the event about to be consumed
  LET e == Rec[l] IN
  CASE e.ev = "TChal" /\ IsMemberTid(e.tid) ->
         LET i == MemberOfTid(e.tid) IN T!Required(Mem(i), Len(chal[e.tid]) + 1) \subseteq abs[e.tid]
    [] e.ev = "TAppend" /\ wtid # 0 /\ e.tid = wtid /\ Len(scripts[wtid]) >= 1 ->
         \* contribution of member j = NContrib + 1: an output of a generator built on j's transcript after its responses
         LET j == NContrib + 1 IN
         /\ j <= NP
         /\ \E rid \in DOMAIN rng : /\ rng[rid].tid = Cfg.tids[j]
                                    /\ T!Responses(Mem(j)) \subseteq rng[rid].absAt
                                    /\ \E f \in 1..Len(rng[rid].fills) : rng[rid].fills[f].tok = e.tok
         /\ (Strict => e.label = "proof" /\ e.len = 8)
    [] e.ev = "RBuild" /\ wtid # 0 /\ e.tid = wtid -> NContrib = NP          \* weight generator after every member
    [] e.ev = "TNew" -> (Strict /\ ~(\E i \in 1..Len(Cfg.tids) : Cfg.tids[i] = e.tid)) => e.label = T!WeightLabel
    [] OTHER -> TRUE

MerlinEv == /\ pc = "run" /\ l <= NRec
            /\ Rec[l].ev \in {"TNew", "TClone", "TAppend", "TChal", "RBuild", "RRekey", "RFinal", "RFill"}
            /\ DepOk
            /\ TNext
            /\ wtid' = IF Rec[l].ev = "TNew" /\ ~(\E i \in 1..Len(Cfg.tids) : Cfg.tids[i] = Rec[l].tid) THEN Rec[l].tid ELSE wtid
            /\ UNCHANGED <<pc, cfg>> /\ UNCHANGED avars

\* ---- the final MSM: micro-steps per member, then the comparison -------------------------------------
MaxNM == LET RECURSIVE Mx(_) Mx(i) == IF i = 0 THEN 0 ELSE LET a == Mem(i).n * Mem(i).m  b == Mx(i-1) IN IF a > b THEN a ELSE b IN Mx(NP)
ZeroSeq(n) == [i \in 1..n |-> Zero21]

\* weight provenance: a non-zero reduction of an output of the weight generator
WeightFills == UNION { {Rec[rng[rid].fills[f].pos].wide : f \in 1..Len(rng[rid].fills)} : rid \in {x \in DOMAIN rng : rng[x].tid = wtid} }
RECURSIVE ObsFrom(_,_,_)
ObsFrom(o, tk, i) == IF i > Len(o) THEN Zero21 ELSE IF o[i][1] = tk THEN o[i][2] ELSE ObsFrom(o, tk, i + 1)
\* the weights of a (long) batch without the per-member arithmetic: w_i, read off the scalar on B_i, is non-zero, is the
\* reduction of an output of the weight generator (built after every member contributed: MerlinEv), and no two members share one
\* (two steps: the reductions of the generator's outputs are computed once, into `wts`, then every member is looked up)
WStart == /\ Is("VMSM") /\ pc = "run" /\ WeightsOnly /\ Rec[l].arith /\ ~CheckArith
          /\ wts' = {Reduce(f) : f \in WeightFills \ {<<>>}} /\ pc' = "wchk"
          /\ UNCHANGED <<l, scripts, abs, chal, rng, mi, r, cfg, wtid, cx, tb, dd, sc, acc, allp>>
WChk == /\ pc = "wchk"
        /\ LET W(i) == FSub(Zero21, ObsFrom(Rec[l].obs, Mem(i).tok.B, 1)) IN
           /\ \A i \in 1..NP : W(i) # Zero21 /\ W(i) \in wts
           /\ Cardinality({W(i) : i \in 1..NP}) = NP
        /\ Verifying => (Rec[l].out_zero <=> (Cfg.result = "ok"))
        /\ pc' = "run" /\ l' = l + 1 /\ wts' = <<>>
        /\ UNCHANGED <<scripts, abs, chal, rng, mi, r, cfg, wtid, cx, tb, dd, sc, acc, allp>>
VMSMStart == /\ Is("VMSM") /\ pc = "run"
             /\ ~(WeightsOnly /\ Rec[l].arith /\ ~CheckArith)
             /\ IF CheckArith
                THEN /\ pc' = "red" /\ mi' = 1 /\ wts' = <<>> /\ allp' = <<>> /\ UNCHANGED l
                     /\ acc' = [Gi |-> ZeroSeq(MaxNM), Hi |-> ZeroSeq(MaxNM), H |-> Zero21, G |-> ZeroSeq(Mem(1).t)]
                ELSE /\ pc' = "run" /\ l' = l + 1 /\ UNCHANGED <<mi, wts, acc, allp>>
                     /\ (Verifying => (Rec[l].out_zero <=> (Cfg.result = "ok")))
             /\ UNCHANGED <<scripts, abs, chal, rng, r, cfg, wtid, cx, tb, dd, sc>>

Ch(i) == chal[Cfg.tids[i]]
\* reduce the recorded 64-byte challenge outputs of member mi modulo l
Red == /\ pc = "red" /\ mi <= NP
       /\ LET mb == Mem(mi)  ch == Ch(mi)  k == mb.k IN
          /\ Len(ch) = k + 3
          /\ k <= 20 /\ Pw2(k) = mb.n * mb.m       \* the final check is only ever reached with exactly log2(n*m) rounds
          /\ cx' = [n |-> mb.n, m |-> mb.m, t |-> mb.t, k |-> k, nm |-> mb.n * mb.m,
                    y |-> Reduce(Rec[ch[1].pos].wide), z |-> Reduce(Rec[ch[2].pos].wide), e |-> Reduce(Rec[ch[k+3].pos].wide),
                    es |-> [j \in 1..k |-> Reduce(Rec[ch[2+j].pos].wide)], yinv |-> Rec[ch[1].pos].inv, esinv |-> [j \in 1..k |-> Rec[ch[2+j].pos].inv]]
       /\ pc' = "tab0" /\ UNCHANGED <<l, scripts, abs, chal, rng, mi, r, cfg, wtid, tb, dd, sc, acc, wts, allp>>
\* claimed inverses are checked, not trusted
Tab0 == /\ pc = "tab0"
        /\ FMul(cx.y, cx.yinv) = One21
        /\ \A j \in 1..cx.k : FMul(cx.es[j], cx.esinv[j]) = One21
        /\ tb' = S!Tab0(cx) /\ r' = 1 /\ pc' = "tab"
        /\ UNCHANGED <<l, scripts, abs, chal, rng, mi, cfg, wtid, cx, dd, sc, acc, wts, allp>>
TabStep == /\ pc = "tab"
           /\ IF r <= S!NSteps(cx.nm, cx.m)
              THEN tb' = S!TabStep(tb, cx, r) /\ r' = r + 1 /\ pc' = "tab" /\ UNCHANGED dd
              ELSE dd' = S!DTab(tb, cx.n, cx.nm) /\ pc' = "scal" /\ UNCHANGED <<tb, r>>
           /\ UNCHANGED <<l, scripts, abs, chal, rng, mi, cfg, wtid, cx, sc, acc, wts, allp>>
Rsp(i) == [r1 |-> Mem(i).r1, s1 |-> Mem(i).s1, d1 |-> Mem(i).d1]
\* mask recovery as an equation without inverses (C09, C10): the recovered value m_k is the unique solution of
\*   d1_k = eta_k + e*d_k + e^2 * (alpha_k + sum_j (e_j^2 dL_jk + e_j^-2 dR_jk) + m_k * z^2 * y^(nm+1))
\* with the nonces derived from the VERIFIER's seed (right seed: the blinding factor; wrong seed: some other value)
RECURSIVE SumLRn(_,_,_)
SumLRn(nr, kk, j) == IF j > cx.k THEN Zero21
                     ELSE FAdd(FAdd(FMul(FMul(cx.es[j], cx.es[j]), nr.dL[j][kk]), FMul(FMul(cx.esinv[j], cx.esinv[j]), nr.dR[j][kk])), SumLRn(nr, kk, j + 1))
MaskOk(mb) ==
  IF Cfg.mode = "VerifyOnly" \/ ~mb.seeded THEN mb.mask = <<>>
  ELSE /\ Len(mb.mask) = cx.t
       /\ \A kk \in 1..cx.t :
            mb.d1[kk] = FAdd(mb.nref.eta[kk], FAdd(FMul(cx.e, mb.nref.d[kk]),
                          FMul(sc.e2, FAdd(FAdd(mb.nref.alpha[kk], SumLRn(mb.nref, kk, 1)), FMul(mb.mask[kk], FMul(sc.z2, sc.ynm1))))))
\* the scalar the final MSM carried on the point with token T (summed over equal points; zero if the point is absent)
Obs(tk) == ObsFrom(Rec[l].obs, tk, 1)
Scal == /\ pc = "scal"
        /\ sc' = S!Scal(tb, dd, cx, Rsp(mi), cx.nm)
        /\ wts' = (IF Is("VMSM") THEN Append(wts, FSub(Zero21, Obs(Mem(mi).tok.B))) ELSE wts)   \* the weight is DEFINED by the scalar on B
        /\ pc' = (IF Is("VMSM") THEN "acc" ELSE "rec")
        /\ UNCHANGED <<l, scripts, abs, chal, rng, mi, r, cfg, wtid, cx, tb, dd, acc, allp>>
\* RecoverOnly: only the recovery equation, member by member
RecStep == /\ pc = "rec"
           /\ MaskOk(Mem(mi))
           /\ IF mi < NP THEN mi' = mi + 1 /\ pc' = "red" /\ UNCHANGED l
              ELSE mi' = mi /\ pc' = "run" /\ l' = l + 1
           /\ UNCHANGED <<scripts, abs, chal, rng, r, cfg, wtid, cx, tb, dd, sc, acc, wts, allp>>
Acc == /\ pc = "acc"
       /\ LET w == wts[mi]  mb == Mem(mi)  rsp == Rsp(mi) IN
          /\ w # Zero21
          /\ \E f \in WeightFills : f # <<>> /\ Reduce(f) = w
          /\ \A i2 \in 1..(mi-1) : wts[i2] # w
          \* the expected scalar of every dynamic role of this member (points shared between roles or members are summed in Fin)
          /\ allp' = allp \o <<<<mb.tok.A, FMul(w, S!RefA(sc))>>, <<mb.tok.A1, FMul(w, S!RefA1(cx))>>, <<mb.tok.B, FSub(Zero21, w)>>>>
                          \o [j \in 1..cx.k |-> <<mb.tok.L[j], FMul(w, S!RefL(sc, cx, j))>>]
                          \o [j \in 1..cx.k |-> <<mb.tok.R[j], FMul(w, S!RefR(sc, cx, j))>>]
                          \o [j \in 1..cx.m |-> <<mb.tok.C[j], FMul(w, S!RefV(tb, sc, j))>>]
          /\ (Cfg.result = "ok") => MaskOk(mb)
          /\ acc' = [Gi |-> [x \in 1..Len(acc.Gi) |-> IF x <= cx.nm THEN FAdd(acc.Gi[x], FMul(w, S!RefGi(tb, sc, x-1))) ELSE acc.Gi[x]],
                     Hi |-> [x \in 1..Len(acc.Hi) |-> IF x <= cx.nm THEN FAdd(acc.Hi[x], FMul(w, S!RefHi(tb, dd, sc, cx, cx.nm, x-1))) ELSE acc.Hi[x]],
                     H  |-> FAdd(acc.H, FMul(w, S!RefH(tb, sc, cx, rsp, mb.prom, cx.m))),
                     G  |-> [kk \in 1..Len(acc.G) |-> FAdd(acc.G[kk], FMul(w, S!RefG(rsp, kk)))]]
       /\ mi' = mi + 1 /\ pc' = IF mi < NP THEN "red" ELSE "fin"
       /\ UNCHANGED <<l, scripts, abs, chal, rng, r, cfg, wtid, cx, tb, dd, sc, wts>>
RECURSIVE ExpSum(_,_,_)
ExpSum(ps, tk, i) == IF i > Len(ps) THEN Zero21 ELSE IF ps[i][1] = tk THEN FAdd(ps[i][2], ExpSum(ps, tk, i + 1)) ELSE ExpSum(ps, tk, i + 1)
\* every scalar handed to the final MSM, position by position and role by role
Fin == /\ pc = "fin"
       /\ LET e == Rec[l]  n == Mem(1).n  mx == Len(acc.Gi) IN
          /\ e.nstat = e.ntable /\ e.ndyn_s = e.ndyn_p
          /\ \A p \in 1..Len(e.stat) :
               LET x == e.stat[p][2] * n + e.stat[p][3] IN
               /\ e.stat[p][1] \in {"Gi", "Hi"}
               /\ e.stat[p][4] = IF x < mx THEN (IF e.stat[p][1] = "Gi" THEN acc.Gi[x+1] ELSE acc.Hi[x+1]) ELSE Zero21
          /\ \A x \in 0..(mx-1) : /\ \E p \in 1..Len(e.stat) : e.stat[p][1] = "Gi" /\ e.stat[p][2] * n + e.stat[p][3] = x
                                  /\ \E p \in 1..Len(e.stat) : e.stat[p][1] = "Hi" /\ e.stat[p][2] * n + e.stat[p][3] = x
          /\ CheckLayout => \A p \in 1..Len(e.stat) :
               /\ e.stat[p][1] = (IF p % 2 = 1 THEN "Gi" ELSE "Hi") /\ e.stat[p][2] * n + e.stat[p][3] = (p - 1) \div 2
               /\ e.stat[p][3] < n
          \* dynamic part: for every point, the scalar it carried equals the sum of the expected scalars of all roles that point
          \* plays (a proof element of some member, a commitment, H, a G_k); nothing else carries a non-zero scalar
          /\ LET full == allp \o <<<<Mem(1).tok.H, acc.H>>>> \o [kk \in 1..Len(acc.G) |-> <<Mem(1).tok.G[kk], acc.G[kk]>>]
                 Toks == {full[i][1] : i \in 1..Len(full)} \cup {e.obs[i][1] : i \in 1..Len(e.obs)} IN
             \* (the identity point contributes nothing whatever scalar it carries: a commitment to zero with zero blindings)
             \A tk \in Toks \ {e.idtok} : Obs(tk) = ExpSum(full, tk, 1)
          /\ Verifying => (e.out_zero <=> (Cfg.result = "ok"))
       /\ pc' = "run" /\ l' = l + 1
       /\ UNCHANGED <<scripts, abs, chal, rng, mi, r, cfg, wtid, cx, tb, dd, sc, acc, wts, allp>>

\* a call that never reached the final check must not have accepted (unless it was asked not to verify)
RecoverArith == CheckArith /\ Is("VNoMSM") /\ Cfg.mode = "RecoverOnly" /\ Cfg.result = "ok" /\ NP >= 1
VNoMSMEv == /\ (Is("VNoMSM") \/ Is("VSkip")) /\ pc = "run"
            /\ (Is("VNoMSM") /\ Verifying) => Cfg.result # "ok"
            /\ IF RecoverArith
               THEN /\ pc' = "red" /\ mi' = 1 /\ wts' = <<>> /\ acc' = <<>> /\ UNCHANGED <<l, r, cx, tb, dd, sc, allp>>     \* micro-steps, then consume
               ELSE /\ l' = l + 1 /\ UNCHANGED pc /\ UNCHANGED avars
            /\ UNCHANGED <<scripts, abs, chal, rng, cfg, wtid>>

VRetEv == /\ Is("VRet") /\ pc = "run"
          /\ Strict => \A i \in 1..NP : i <= Len(Cfg.tids) =>
                IF Cfg.result = "ok" THEN T!Matches(scripts[Cfg.tids[i]], T!Script(Mem(i)))
                ELSE T!MatchesPrefix(scripts[Cfg.tids[i]], T!Script(Mem(i)))
          /\ pc' = "idle" /\ l' = l + 1 /\ UNCHANGED <<scripts, abs, chal, rng, cfg, wtid>> /\ UNCHANGED avars

Next == VCallEv \/ MerlinEv \/ VMSMStart \/ WStart \/ WChk \/ Red \/ Tab0 \/ TabStep \/ Scal \/ RecStep \/ Acc \/ Fin \/ VNoMSMEv \/ VRetEv
Spec == Init /\ [][Next]_vars

\* ---- acceptance: every event consumed --------------------------------------------------------------
ASSUME TLCSet(41, 0)
Progress == TLCSet(41, IF TLCGet(41) < l THEN l ELSE TLCGet(41))
Accepted == IF TLCGet(41) = NRec + 1 THEN TRUE
            ELSE PrintT(<<"REJECTED", TLCGet(41), IF TLCGet(41) <= NRec THEN [ev |-> Rec[TLCGet(41)].ev, scen |-> Rec[TLCGet(41)].scen] ELSE "end">>) /\ FALSE
====
