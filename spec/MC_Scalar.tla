---- MODULE MC_Scalar ----
(***************************************************************************************************)
(* C15, the scalar slots of an encoding: a 32-byte chunk is accepted as a scalar exactly when the     *)
(* 256-bit little-endian integer it encodes is below the group order l, and an accepted chunk        *)
(* re-encodes to itself.  The value is modelled as 16 limbs of 16 bits; `Below` is the comparison     *)
(* with l, most significant limb first.  The family enumerated is the one a limb-wise comparison can  *)
(* get wrong: l with one limb changed, l with a higher limb raised AND a lower limb lowered (and the  *)
(* converse), the powers of two around 2^252, and the extremes.  Each value is placed in each scalar  *)
(* slot (d1_k, r1, s1) of an otherwise well-formed encoding; pairs of slots combine a canonical       *)
(* value at or above 2^252 in the earlier slot with a non-canonical one in the later slot.            *)
(* `LastLimbOr` is the seeded defect (the last step of the comparison is a disjunction).              *)
(***************************************************************************************************)
EXTENDS Integers, Sequences, FiniteSets, TLC, Json
CONSTANTS Tier, LastLimbOr
\* l = 2^252 + 27742317777372353535851937790883648493, little-endian 16-bit limbs
L == <<54253, 23797, 25370, 22546, 40150, 41719, 63966, 5342, 0, 0, 0, 0, 0, 0, 0, 4096>>
RECURSIVE BelowFrom(_,_,_)
BelowFrom(v, w, i) == IF i = 0 THEN FALSE ELSE IF v[i] < w[i] THEN TRUE ELSE IF v[i] > w[i] THEN FALSE ELSE BelowFrom(v, w, i - 1)
Below(v, w) == BelowFrom(v, w, 16)
\* the comparison as a 4 x 64-bit-limb routine would do it (each 64-bit limb = 4 of ours), with the seeded defect in its last step
Limb64Below(v, w, q) == BelowFrom([i \in 1..4 |-> v[4 * (q - 1) + i]], [i \in 1..4 |-> w[4 * (q - 1) + i]], 4)
Limb64Eq(v, w, q) == \A i \in 1..4 : v[4 * (q - 1) + i] = w[4 * (q - 1) + i]
Coded(v) ==
  IF ~LastLimbOr THEN Below(v, L)
  ELSE IF Limb64Below(v, L, 4) THEN TRUE ELSE IF ~Limb64Eq(v, L, 4) THEN FALSE
  ELSE IF Limb64Below(v, L, 3) THEN TRUE ELSE IF ~Limb64Eq(v, L, 3) THEN FALSE
  ELSE Limb64Below(v, L, 2) \/ Limb64Below(v, L, 1)
Set(v, i, x) == [v EXCEPT ![i] = x]
Zero == [i \in 1..16 |-> 0]
Ones == [i \in 1..16 |-> 65535]
Single == { Set(L, i, x) : i \in 1..16, x \in {0, 65535} } \cup { Set(L, i, L[i] + 1) : i \in {i \in 1..16 : L[i] < 65535} }
          \cup { Set(L, i, L[i] - 1) : i \in {i \in 1..16 : L[i] > 0} }
Double == { Set(Set(L, i, L[i] + 1), j, y) : i \in {i \in 2..16 : L[i] < 65535}, j \in 1..15, y \in {0} } 
          \cup { Set(Set(L, i, L[i] + 1), j, L[j] - 1) : i \in {i \in 2..16 : L[i] < 65535}, j \in {j \in 1..15 : L[j] > 0} }
          \cup { Set(Set(L, i, L[i] - 1), j, 65535) : i \in {i \in 2..16 : L[i] > 0}, j \in 1..15 }
          \cup { Set(Set(L, i, 32768), j, 0) : i \in 1..15, j \in 1..15 }           \* 2^252 + 2^(16 i - 1) with a lower limb cleared
Special == { Zero, Set(Zero, 1, 1), Set(Zero, 16, 4096), Set(Ones, 16, 4095), Set(Zero, 16, 8192), Set(Zero, 16, 32768), Ones, L }
Values == Single \cup {v \in Double : \E i, j \in 1..16 : i > j /\ v[i] # L[i] /\ v[j] # L[j]} \cup Special
HighCanon == { Set(L, 1, L[1] - 1), Set(Zero, 16, 4096) }                        \* l - 1 and 2^252
NonCanon == { L, Set(L, 1, L[1] + 1), Set(Set(L, 8, 32768), 1, 0), Ones }
Slots(t) == 0..(t - 1) \cup {t + 3, t + 4}                                        \* element indices of d1_k, r1, s1
Cases == { [op |-> "decode_scalar", t |-> t, slots |-> <<[e |-> e, v |-> v]>>, expect |-> IF Coded(v) THEN "ok" ELSE "err"] :
             t \in {1, 2}, e \in UNION {Slots(t) : t \in {1, 2}}, v \in Values }
      \cup { [op |-> "decode_scalar", t |-> t, slots |-> <<[e |-> a, v |-> va], [e |-> b, v |-> vb]>>, expect |-> IF Coded(va) /\ Coded(vb) THEN "ok" ELSE "err"] :
             t \in {1, 2, 3}, a \in UNION {Slots(t) : t \in {1, 2, 3}}, b \in UNION {Slots(t) : t \in {1, 2, 3}}, va \in HighCanon, vb \in NonCanon \cup HighCanon }
VARIABLES c, pc
Init == pc = "pick" /\ c = [op |-> "none"]
Next == \/ pc = "pick" /\ pc' = "done" /\ c' \in {x \in Cases : \A s \in 1..Len(x.slots) : x.slots[s].e \in Slots(x.t) /\ (s > 1 => x.slots[s].e > x.slots[s-1].e)}
        \/ pc = "done" /\ UNCHANGED <<c, pc>>
Spec == Init /\ [][Next]_<<c, pc>>
\* the acceptance set in closed form: a chunk is accepted iff its value is below l (and l itself, l + 1, 2^256 - 1 are not)
Canonical == pc = "done" => ((c.expect = "ok") <=> \A s \in 1..Len(c.slots) : Below(c.slots[s].v, L))
Emit == pc = "done" => PrintT(<<"REPLAY", ToJson(c)>>)
====
