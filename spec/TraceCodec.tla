---- MODULE TraceCodec ----
(***************************************************************************************************)
(* Trace validation of the decoder (C15, impl -> spec): the harness builds byte strings by           *)
(* structured transformations of well-formed encodings (rotations, reversals, the tag moved or       *)
(* duplicated, elements swapped or dropped, non-canonical scalars planted) and by random generation, *)
(* decodes each with `from_bytes`, and records the ABSTRACTION of the string - total length, first    *)
(* byte, the set of 32-byte chunks that are not canonical scalar encodings (decided with the curve    *)
(* library's own canonicity test) - together with what the decoder did.  The specification decides    *)
(* every recorded decision: accepted <=> closed form of C15 (over a set of non-canonical chunks);     *)
(* accepted => re-encoding returned the identical bytes and the serde forms agree.                    *)
(***************************************************************************************************)
EXTENDS Integers, Sequences, FiniteSets, TLC, Json, IOUtils
Rec == ndJsonDeserialize(IOEnv.TRACE)
NRec == Len(Rec)
VARIABLES l
Init == l = 1
NCh(e) == IF e.len = 0 THEN 0 ELSE (e.len - 1) \div 32
Rem(e) == IF e.len = 0 THEN 0 ELSE (e.len - 1) % 32
\* chunk indices (1-based, after the first byte) that are parsed as scalars for tag d: d1 (1..d), r1, s1 (d+4, d+5)
ScalarSlots(d) == (1..d) \cup {d + 4, d + 5}
Closed(e) == /\ e.len >= 1 /\ e.fb \in 1..6 /\ Rem(e) = 0
             /\ (NCh(e) - 5 - e.fb) % 2 = 0 /\ NCh(e) - 5 - e.fb >= 2
             /\ \A i \in 1..Len(e.noncanon) : e.noncanon[i] \notin ScalarSlots(e.fb)
Decode == /\ l <= NRec /\ Rec[l].ev = "Decode"
          /\ LET e == Rec[l] IN
             /\ e.accepted <=> Closed(e)
             /\ e.accepted => (e.reencodes /\ e.serde_slice /\ e.serde_stream)
             /\ ~e.accepted => (~e.serde_slice /\ ~e.serde_stream)
          /\ l' = l + 1
Next == Decode
Spec == Init /\ [][Next]_l
ASSUME TLCSet(41, 0)
Progress == TLCSet(41, IF TLCGet(41) < l THEN l ELSE TLCGet(41))
Accepted == IF TLCGet(41) = NRec + 1 THEN TRUE
            ELSE PrintT(<<"REJECTED", TLCGet(41), IF TLCGet(41) <= NRec THEN [ev |-> Rec[TLCGet(41)].ev, scen |-> Rec[TLCGet(41)].scen] ELSE "end">>) /\ FALSE
====
