---- MODULE BPV ----
(* Prototype: published BP+ verification relation vs code-shaped verifier, as linear forms over symbols *)
EXTENDS Integers, Sequences, FiniteSets, TLC
CONSTANTS FAdd(_,_), FSub(_,_), FMul(_,_), FZero, FOne, FTwo,
          Bug     \* "none", or the name of a seeded defect of the code-shaped verifier (negative configurations)

FNeg(a) == FSub(FZero, a)
RECURSIVE FPow(_,_)
FPow(x, k) == IF k = 0 THEN FOne ELSE FMul(x, FPow(x, k-1))
RECURSIVE Log2(_)
Log2(x) == IF x <= 1 THEN 0 ELSE 1 + Log2(x \div 2)
RECURSIVE Pow2(_)
Pow2(k) == IF k = 0 THEN 1 ELSE 2 * Pow2(k-1)

\* ---- symbols -------------------------------------------------------------
Syms(n, m, t, k) ==
  {<<"H">>} \cup {<<"G", i>> : i \in 0..(t-1)} \cup {<<"Gi", i>> : i \in 0..(n*m-1)} \cup {<<"Hi", i>> : i \in 0..(n*m-1)}
  \cup {<<"A">>, <<"A1">>, <<"B">>} \cup {<<"L", j>> : j \in 0..(k-1)} \cup {<<"R", j>> : j \in 0..(k-1)} \cup {<<"V", j>> : j \in 0..(m-1)}

\* d_i = z^(2(j+1)) * 2^b for i = j*n + b
DRef(z, n, i) == FMul(FPow(z, 2*((i \div n) + 1)), FPow(FTwo, i % n))

\* ---- (a) published relation: recursive zk-WIP verifier with generator folding -------
\* gs, hs: sequences of functions index(0..nm-1) -> F, representing current folded generators over original Gi / Hi
\* acc: function over {L_j,R_j} coefficients accumulated into P (besides Ahat)
RECURSIVE FoldG(_,_,_,_,_)
FoldG(gs, hs, j, c, nm) ==
  IF Len(gs) = 1 THEN <<gs[1], hs[1]>>
  ELSE LET nh == Len(gs) \div 2
           e == c.es[j+1]  ei == c.esinv[j+1]
           yinh == FPow(c.yinv, nh)
           g2 == [i \in 1..nh |-> [x \in 0..(nm-1) |-> FAdd(FMul(ei, gs[i][x]), FMul(FMul(e, yinh), gs[nh+i][x]))]]
           h2 == [i \in 1..nh |-> [x \in 0..(nm-1) |-> FAdd(FMul(e, hs[i][x]), FMul(ei, hs[nh+i][x]))]]
       IN FoldG(g2, h2, j+1, c, nm)

UnitVec(i, nm) == [x \in 0..(nm-1) |-> IF x = i THEN FOne ELSE FZero]

RECURSIVE SumTo(_,_,_)   \* sum_{i=lo}^{hi} f(i) where f given as function
SumTo(f, lo, hi) == IF lo > hi THEN FZero ELSE FAdd(f[lo], SumTo(f, lo+1, hi))

\* Residual linear form  RHS - LHS  of the final check, as function over Syms
RefForm(n, m, t, prom, rsp, c) ==
  LET nm == n*m
      k  == Log2(nm)
      y == c.y  z == c.z  e == c.e  e2 == FMul(c.e, c.e)
      ypow == [i \in 0..(nm+1) |-> FPow(y, i)]
      ysum == SumTo(ypow, 1, nm)
      d == [i \in 0..(nm-1) |-> DRef(z, n, i)]
      dsum == SumTo(d, 0, nm-1)
      zeta == FSub(FSub(FMul(z, ysum), FMul(FMul(z, ypow[nm+1]), dsum)), FMul(FMul(z,z), ysum))
      folded == FoldG([i \in 1..nm |-> UnitVec(i-1, nm)], [i \in 1..nm |-> UnitVec(i-1, nm)], 0, c, nm)
      gh == folded[1]  hh == folded[2]
      r1e == FMul(rsp.r1, e)  s1e == FMul(rsp.s1, e)
      vco == [j \in 0..(m-1) |-> FMul(FPow(z, 2*(j+1)), ypow[nm+1])]
      \* Ahat coefficients
      AhatH == FSub(zeta, SumTo([j \in 0..(m-1) |-> FMul(vco[j], prom[j+1])], 0, m-1))
  IN [s \in Syms(n, m, t, k) |->
        CASE s[1] = "H"  -> FSub(FMul(FMul(rsp.r1, y), rsp.s1), FMul(e2, AhatH))
          [] s[1] = "G"  -> rsp.d1[s[2]+1]
          [] s[1] = "Gi" -> FSub(FMul(r1e, gh[s[2]]), FMul(e2, FNeg(z)))
          [] s[1] = "Hi" -> FSub(FMul(s1e, hh[s[2]]), FMul(e2, FAdd(FMul(d[s[2]], ypow[nm - s[2]]), z)))
          [] s[1] = "A"  -> FNeg(e2)
          [] s[1] = "A1" -> FNeg(e)
          [] s[1] = "B"  -> FNeg(FOne)
          [] s[1] = "L"  -> FNeg(FMul(e2, FMul(c.es[s[2]+1], c.es[s[2]+1])))
          [] s[1] = "R"  -> FNeg(FMul(e2, FMul(c.esinv[s[2]+1], c.esinv[s[2]+1])))
          [] s[1] = "V"  -> FNeg(FMul(e2, vco[s[2]]))]

\* ---- (b) code-shaped verifier (src/range_proof.rs verify, per proof, weight w) ------
RECURSIVE DCode(_,_,_,_)   \* builds d as a sequence exactly as the code does
DCode(acc, z2, n, nm) ==
  IF Len(acc) = nm THEN acc
  ELSE IF Len(acc) = 0 THEN DCode(<<z2>>, z2, n, nm)
  ELSE IF Len(acc) < n THEN DCode(Append(acc, FMul(IF Bug = "radix3" THEN FAdd(FTwo, FOne) ELSE FTwo, acc[Len(acc)])), z2, n, nm)
  ELSE DCode(Append(acc, FMul(acc[Len(acc) - n + 1], z2)), z2, n, nm)

RECURSIVE DSumLoop(_,_,_)
DSumLoop(ds, tz, it) == IF it = 0 THEN ds ELSE DSumLoop(FAdd(ds, FMul(ds, tz)), FMul(tz, tz), it - 1)

RECURSIVE SCode(_,_,_,_)   \* s vector recurrence
SCode(acc, sq, k, nm) ==
  IF Len(acc) = nm THEN acc
  ELSE LET i == Len(acc)  lg == Log2(i)  j == Pow2(lg)
       IN SCode(Append(acc, FMul(acc[(i - j) + 1], sq[(k - lg - 1) + 1])), sq, k, nm)

RECURSIVE ProdSeq(_,_)
ProdSeq(s, i) == IF i > Len(s) THEN FOne ELSE FMul(s[i], ProdSeq(s, i+1))

ImplForm(n, m, t, prom, rsp, c, w) ==
  LET nm == n*m
      k == Log2(nm)
      y == c.y  z == c.z  e == c.e
      z2 == FMul(z, z)  e2 == FMul(e, e)
      sq == [j \in 1..k |-> FMul(c.es[j], c.es[j])]
      sqi == [j \in 1..k |-> FMul(c.esinv[j], c.esinv[j])]
      ynm == FPow(y, nm)  ynm1 == FMul(ynm, y)
      ysum == FMul(FMul(y, FSub(ynm, FOne)), c.y1inv)
      d == DCode(<<>>, z2, n, nm)
      dsum == FMul(DSumLoop(z2, z2, IF Bug = "dsum_cap" /\ Log2(m) > 1 THEN 1 ELSE Log2(m)), FSub(FPow(FTwo, n), FOne))
      s == SCode(<<ProdSeq(c.esinv, 1)>>, sq, k, nm)
      r1e == FMul(rsp.r1, e)  s1e == FMul(rsp.s1, e)  e2z == FMul(e2, z)
      gi == [i \in 0..(nm-1) |-> FMul(w, FAdd(FMul(FMul(r1e, FPow(c.yinv, i)), s[i+1]), e2z))]
      hi == [i \in 0..(nm-1) |-> FMul(w, FSub(FMul(s1e, s[nm - i]), FMul(e2, FAdd(FMul(d[i+1], FMul(ynm, FPow(c.yinv, i))), z))))]
      wv == [j \in 0..(m-1) |-> FMul(w, FMul(FNeg(e2), FMul(FPow(z2, j+1), IF Bug = "v_ynm" THEN ynm ELSE ynm1)))]
      hsc == FAdd( SumTo([j \in 0..(m-1) |-> FNeg(FMul(wv[j], prom[j+1]))], 0, m-1),
                   FMul(w, FAdd(FMul(FMul(rsp.r1, IF Bug = "no_y" THEN FOne ELSE y), rsp.s1), FMul(e2, FAdd(FMul(FMul(ynm1, z), dsum), FMul(FSub(z2, z), ysum))))))
  IN [sy \in Syms(n, m, t, k) |->
        CASE sy[1] = "H"  -> hsc
          [] sy[1] = "G"  -> FMul(w, rsp.d1[sy[2]+1])
          [] sy[1] = "Gi" -> gi[sy[2]]
          [] sy[1] = "Hi" -> hi[sy[2]]
          [] sy[1] = "A"  -> FMul(w, FNeg(e2))
          [] sy[1] = "A1" -> FMul(w, FNeg(e))
          [] sy[1] = "B"  -> FNeg(w)
          [] sy[1] = "L"  -> FMul(FMul(w, FNeg(e2)), sq[sy[2]+1])
          [] sy[1] = "R"  -> FMul(FMul(w, FNeg(e2)), sqi[sy[2]+1])
          [] sy[1] = "V"  -> wv[sy[2]]]
====
