CONSTANTS
  Family = "complete"
  Tier = "quick"
  MaxBatch = 2
  LoopAllChunks = TRUE
  WholeBatchConsistency = TRUE
SPECIFICATION Spec
INVARIANTS C01 C03 C05 C06 C06b C10 C16 Emit
CHECK_DEADLOCK FALSE
