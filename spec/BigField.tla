---- MODULE BigField ----
EXTENDS Integers, Sequences
B == 4096
CL == <<1005,3933,2652,1585,2066,3429,1948,2607,2526,3567,20>>
LL == <<1005,3933,2652,1585,2066,3429,1948,2607,2526,3567,20,0,0,0,0,0,0,0,0,0,0,1>>
Zero21 == [i \in 1..22 |-> 0]
One21 == [i \in 1..22 |-> IF i = 1 THEN 1 ELSE 0]
Two21 == [i \in 1..22 |-> IF i = 1 THEN 2 ELSE 0]
Min(a,b) == IF a < b THEN a ELSE b
Max(a,b) == IF a > b THEN a ELSE b
RECURSIVE CarryRec(_,_,_,_)
CarryRec(cols, i, carry, acc) ==
  IF i > Len(cols)
  THEN IF carry = 0 THEN acc
       ELSE IF carry = -1 THEN Append(acc, -1)
       ELSE CarryRec(cols, i, carry \div B, Append(acc, carry % B))
  ELSE LET t == cols[i] + carry IN CarryRec(cols, i+1, t \div B, Append(acc, t % B))
Carry(cols) == CarryRec(cols, 1, 0, <<>>)
RECURSIVE SumProd(_,_,_,_,_,_)
SumProd(a, b, k, i, hi, acc) == IF i > hi THEN acc ELSE SumProd(a, b, k, i+1, hi, acc + a[i]*b[k+1-i])
MulCols(a, b) == [k \in 1..(Len(a)+Len(b)-1) |-> SumProd(a, b, k, Max(1, k+1-Len(b)), Min(k, Len(a)), 0)]
At(s, i) == IF i <= Len(s) THEN s[i] ELSE 0
SubCols(a, b) == [k \in 1..Max(Len(a),Len(b)) |-> At(a,k) - At(b,k)]
AddCols(a, b) == [k \in 1..Max(Len(a),Len(b)) |-> At(a,k) + At(b,k)]
RECURSIVE Strip(_)
Strip(s) == IF Len(s) > 0 /\ s[Len(s)] = 0 THEN Strip(SubSeq(s, 1, Len(s)-1)) ELSE s
NeedsFold(x) == Len(x) > 22 \/ (Len(x) = 22 /\ x[22] \notin {-1, 0, 1})
RECURSIVE Fold(_)
Fold(x) == IF ~NeedsFold(x) THEN x
           ELSE LET xl == SubSeq(x, 1, 21)  xh == SubSeq(x, 22, Len(x))
                IN Fold(Strip(Carry(SubCols(xl, MulCols(CL, xh)))))
IsNeg(x) == Len(x) > 0 /\ x[Len(x)] = -1
Pad(x) == [k \in 1..22 |-> At(x, k)]
Final(x) == IF IsNeg(x) THEN Pad(Strip(Carry(AddCols(x, LL))))
            ELSE LET d == Strip(Carry(SubCols(x, LL))) IN IF IsNeg(d) THEN Pad(x) ELSE Pad(d)
Reduce(cols) == Final(Fold(Strip(Carry(cols))))
FMul(a, b) == IF a = Zero21 \/ b = Zero21 THEN Zero21 ELSE IF a = One21 THEN b ELSE IF b = One21 THEN a ELSE Reduce(MulCols(a, b))
FAdd(a, b) == IF a = Zero21 THEN b ELSE IF b = Zero21 THEN a ELSE Reduce(AddCols(a, b))
FSub(a, b) == IF b = Zero21 THEN a ELSE Reduce(SubCols(a, b))
====
