---- MODULE TraceTranscriptPair ----
(***************************************************************************************************)
(* Trace validation of PAIRS of verifier runs that differ in exactly one datum d (C04, TV-2;        *)
(* encoding-independent: it does not look at how d is absorbed, only at what it does).              *)
(* The trace holds, per scenario, a baseline call (honest statement, unaltered proof) followed by   *)
(* the perturbed call; the scenario says which challenge is the first one drawn after d is absorbed *)
(* (`first`, computed by the specification in MC_Api; 0 = no challenge may change).                 *)
(* Required: the two challenge sequences agree before `first` and differ at EVERY index from it on; *)
(* when the datum is a response scalar (no challenge depends on it) the value the proof contributes *)
(* to the batch-weight transcript and every weight drawn afterwards differ (C08).                   *)
(***************************************************************************************************)
EXTENDS TraceBase

VARIABLES pc, cfg, base
vars == <<l, scripts, abs, chal, rng, pc, cfg, base>>

Init == /\ l = 1 /\ TInit /\ pc = "idle" /\ cfg = <<>> /\ base = <<>>

VCallEv == /\ Is("VCall") /\ pc = "idle"
           /\ cfg' = Rec[l] /\ TReset /\ pc' = "run" /\ l' = l + 1
           /\ base' = IF Rec[l].pair = "base" THEN <<>> ELSE base
MerlinEv == /\ pc = "run" /\ TNext /\ UNCHANGED <<pc, cfg, base>>
SkipEv == /\ pc = "run" /\ (Is("VMSM") \/ Is("VNoMSM") \/ Is("VSkip")) /\ l' = l + 1 /\ UNCHANGED <<scripts, abs, chal, rng, pc, cfg, base>>

Tid == cfg.tids[1]
ChalToks == [i \in 1..Len(chal[Tid]) |-> chal[Tid][i].tok]
\* the weight transcript is the one transcript of the call that is not the member's
WTids == (DOMAIN scripts) \ {cfg.tids[i] : i \in 1..Len(cfg.tids)}
Contribs == UNION { {scripts[w][i].tok : i \in 2..Len(scripts[w])} : w \in WTids }
WFills == UNION { {rng[q].fills[f].tok : f \in 1..Len(rng[q].fills)} : q \in {q2 \in DOMAIN rng : rng[q2].tid \in WTids} }
Min(a, b) == IF a < b THEN a ELSE b

VRetEv == /\ Is("VRet") /\ pc = "run"
          /\ IF cfg.pair = "base"
             THEN base' = [chals |-> ChalToks, contribs |-> Contribs, wfills |-> WFills, result |-> cfg.result]
             ELSE /\ UNCHANGED base
                  /\ base # <<>> /\ base.result = "ok"                      \* the baseline triple is an accepted one
                  /\ LET cb == base.chals  cp == ChalToks  n == Min(Len(cb), Len(cp))  f == cfg.first IN
                     /\ \A i \in 1..n : IF f = 0 \/ i < f THEN cb[i] = cp[i] ELSE cb[i] # cp[i]
                     \* the comparison reaches the first affected challenge, unless the perturbed triple was refused
                     \* before any transcript operation (e.g. a promise that no longer fits the bit length)
                     /\ (Len(cp) = 0 /\ cfg.result # "ok") \/ n >= Min(Len(cb), IF f = 0 THEN Len(cb) ELSE f)
                     /\ cfg.wdiff => (/\ Contribs # {} /\ Contribs \cap base.contribs = {}
                                      /\ WFills # {} /\ WFills \cap base.wfills = {})
          /\ pc' = "idle" /\ l' = l + 1 /\ UNCHANGED <<scripts, abs, chal, rng, cfg>>

Next == VCallEv \/ MerlinEv \/ SkipEv \/ VRetEv
Spec == Init /\ [][Next]_vars

ASSUME TLCSet(41, 0)
Progress == TLCSet(41, IF TLCGet(41) < l THEN l ELSE TLCGet(41))
Accepted == IF TLCGet(41) = NRec + 1 THEN TRUE
            ELSE PrintT(<<"REJECTED", TLCGet(41), IF TLCGet(41) <= NRec THEN [ev |-> Rec[TLCGet(41)].ev, scen |-> Rec[TLCGet(41)].scen] ELSE "end">>) /\ FALSE
====
