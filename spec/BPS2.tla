---- MODULE BPS2 ----
(* Prover step functions written for TLC: every action reads only state variables and context tables and builds its
   result coordinate-wise; no computed aggregate is passed as an operator argument or bound in a LET that is read twice. *)
EXTENDS Integers, Sequences, FiniteSets, TLC
CONSTANTS FAdd(_,_), FSub(_,_), FMul(_,_), FZero, FOne, FTwo, Bug
V == INSTANCE BPV
GenSyms(n, m, t) == {<<"H">>} \cup {<<"G", i>> : i \in 0..(t-1)} \cup {<<"Gi", i>> : i \in 0..(n*m-1)} \cup {<<"Hi", i>> : i \in 0..(n*m-1)}
\* context tables, computed once (Init) and kept in a state variable
Ctx(n, m, t, k, nc, c) ==
  [n |-> n, m |-> m, t |-> t, k |-> k, S |-> GenSyms(n, m, t), nc |-> nc, c |-> c,
   ypow |-> [i \in 0..(n*m+1) |-> V!FPow(c.y, i)],
   yni  |-> [j \in 1..k |-> V!FPow(c.yinv, (n*m) \div V!Pow2(j))],
   e2   |-> [j \in 1..k |-> FMul(c.es[j], c.es[j])],
   ei2  |-> [j \in 1..k |-> FMul(c.esinv[j], c.esinv[j])],
   eyni |-> [j \in 1..k |-> FMul(c.es[j], V!FPow(c.yinv, (n*m) \div V!Pow2(j)))],
   d    |-> [i \in 1..(n*m) |-> V!DRef(c.z, n, i-1)],
   z2j  |-> [j \in 1..m |-> V!FPow(FMul(c.z, c.z), j)]]
Bit(bits, n, i) == bits[((i-1) \div n) + 1][((i-1) % n) + 1]
CommitA(x, bits) ==
  [s \in x.S |-> CASE s[1] = "H" -> FZero [] s[1] = "G" -> x.nc.alpha[s[2]+1]
                   [] s[1] = "Gi" -> (IF Bit(bits, x.n, s[2]+1) = 1 THEN FOne ELSE FZero)
                   [] s[1] = "Hi" -> (IF Bit(bits, x.n, s[2]+1) = 1 THEN FZero ELSE FSub(FZero, FOne))]
RECURSIVE SumJ(_,_,_,_,_)   \* sum_j z2j[j]*rb[j][kk]  (index recursion only)
SumJ(x, rb, kk, j, hi) == IF j > hi THEN FZero ELSE FAdd(FMul(x.z2j[j], rb[j][kk]), SumJ(x, rb, kk, j+1, hi))
St0(x, bits, rb) ==
  LET nm == x.n*x.m IN
  [a |-> [i \in 1..nm |-> FSub(IF Bit(bits, x.n, i) = 1 THEN FOne ELSE FZero, x.c.z)],
   b |-> [i \in 1..nm |-> FAdd(IF Bit(bits, x.n, i) = 1 THEN FZero ELSE FSub(FZero, FOne), FAdd(FMul(x.d[i], x.ypow[nm - (i-1)]), x.c.z))],
   gs |-> [i \in 1..nm |-> [s \in x.S |-> IF s = <<"Gi", i-1>> THEN FOne ELSE FZero]],
   hs |-> [i \in 1..nm |-> [s \in x.S |-> IF s = <<"Hi", i-1>> THEN FOne ELSE FZero]],
   al |-> [kk \in 1..x.t |-> FAdd(x.nc.alpha[kk], FMul(SumJ(x, rb, kk, 1, x.m), x.ypow[nm+1]))]]
\* micro-step 1 of a round: scalar tables
RECURSIVE DotL(_,_,_,_,_)
DotL(x, st, nn, i, w0) == IF i > nn THEN FZero ELSE FAdd(FMul(FMul(st.a[i], x.ypow[w0 + i]), st.b[nn + i]), DotL(x, st, nn, i+1, w0))
RECURSIVE DotR(_,_,_,_)
DotR(x, st, nn, i) == IF i > nn THEN FZero ELSE FAdd(FMul(FMul(st.a[nn + i], x.ypow[nn + i]), st.b[i]), DotR(x, st, nn, i+1))
Pre(x, st, j) == LET nn == Len(st.a) \div 2 IN
  [alooff |-> [i \in 1..nn |-> FMul(st.a[i], x.yni[j])], ahioff |-> [i \in 1..nn |-> FMul(st.a[nn+i], x.ypow[nn])],
   cL |-> DotL(x, st, nn, 1, 0), cR |-> DotR(x, st, nn, 1)]
\* micro-step 2: L and R, coordinate-wise
RECURSIVE SumLR(_,_,_,_,_,_)   \* sum_i sc[i] * pts[off+i][s]
SumLR(sc, pts, off, s, i, hi) == IF i > hi THEN FZero ELSE FAdd(FMul(sc[i], pts[off + i][s]), SumLR(sc, pts, off, s, i+1, hi))
RECURSIVE SumB(_,_,_,_,_,_)    \* sum_i b[boff+i] * pts[poff+i][s]
SumB(b, boff, pts, poff, s, i) == IF boff + i > Len(b) \/ poff + i > Len(pts) THEN FZero ELSE FZero
GkCoord(x, v, s) == IF s[1] = "G" THEN v[s[2]+1] ELSE FZero
LR(x, st, pre, j) == LET nn == Len(st.a) \div 2 IN
  [L |-> [s \in x.S |-> FAdd(FAdd(IF s[1] = "H" THEN pre.cL ELSE FZero, GkCoord(x, x.nc.dL[j], s)),
                             FAdd(SumLR(pre.alooff, st.gs, nn, s, 1, nn), SumLR([i \in 1..nn |-> st.b[nn+i]], st.hs, 0, s, 1, nn)))],
   R |-> [s \in x.S |-> FAdd(FAdd(IF s[1] = "H" THEN pre.cR ELSE FZero, GkCoord(x, x.nc.dR[j], s)),
                             FAdd(SumLR(pre.ahioff, st.gs, 0, s, 1, nn), SumLR([i \in 1..nn |-> st.b[i]], st.hs, nn, s, 1, nn)))]]
\* micro-step 3: fold
FoldSt(x, st, pre, j) == LET nn == Len(st.a) \div 2  e == x.c.es[j]  ei == x.c.esinv[j] IN
  [a  |-> [i \in 1..nn |-> FAdd(FMul(st.a[i], e), FMul(pre.ahioff[i], ei))],
   b  |-> [i \in 1..nn |-> FAdd(FMul(st.b[i], ei), FMul(st.b[nn+i], e))],
   gs |-> [i \in 1..nn |-> [s \in x.S |-> FAdd(FMul(ei, st.gs[i][s]), FMul(x.eyni[j], st.gs[nn+i][s]))]],
   hs |-> [i \in 1..nn |-> [s \in x.S |-> FAdd(FMul(e, st.hs[i][s]), FMul(ei, st.hs[nn+i][s]))]],
   al |-> [kk \in 1..x.t |-> FAdd(st.al[kk], FAdd(FMul(x.nc.dL[j][kk], x.e2[j]), FMul(x.nc.dR[j][kk], x.ei2[j])))]]
FinScal(x, st) == [hco |-> FAdd(FMul(FMul(x.nc.rr, x.c.y), st.b[1]), FMul(FMul(x.nc.ss, x.c.y), st.a[1])),
                   rys |-> FMul(FMul(x.nc.rr, x.c.y), x.nc.ss), ee |-> FMul(x.c.e, x.c.e)]
Finish(x, st, fs) ==
  [A1 |-> [s \in x.S |-> FAdd(FAdd(FMul(x.nc.rr, st.gs[1][s]), FMul(x.nc.ss, st.hs[1][s])), FAdd(IF s[1] = "H" THEN fs.hco ELSE FZero, GkCoord(x, x.nc.dd, s)))],
   B  |-> [s \in x.S |-> FAdd(IF s[1] = "H" THEN fs.rys ELSE FZero, GkCoord(x, x.nc.eta, s))],
   r1 |-> FAdd(x.nc.rr, FMul(st.a[1], x.c.e)), s1 |-> FAdd(x.nc.ss, FMul(st.b[1], x.c.e)),
   d1 |-> [kk \in 1..x.t |-> FAdd(x.nc.eta[kk], FAdd(FMul(x.nc.dd[kk], x.c.e), FMul(st.al[kk], fs.ee)))]]
====
