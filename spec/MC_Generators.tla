---- MODULE MC_Generators ----
(***************************************************************************************************)
(* C11 / C12: how generators are named and laid out.                                                 *)
(*  - vector generator (kind, party, i): hash-to-group of the i-th 64-byte block of                  *)
(*    SHAKE256(Prefix || kind byte || LE32(party)); the name does not mention the capacity;           *)
(*  - blinding generator k (1..6): hash-to-group of SHA3-512(MaskPrefix || decimal(k));              *)
(*    value generator: the Ristretto basepoint;                                                      *)
(*  - aggregated iteration order: party-major; precomputation table position of (kind, party, i)     *)
(*    for bit length n: 2*(party*n + i) + [kind = "H"].                                              *)
(* TLC checks: names are injective over (kind, party < 32, i < 64) and over the six blinding labels  *)
(* (and disjoint from each other), capacity independence, table positions form a bijection onto      *)
(* 0..2*n*cap-1 that interleaves G and H; and prints the derivation script (byte strings) that the    *)
(* harness executes with SHAKE256 / SHA3-512 against the library's generators.                       *)
(***************************************************************************************************)
EXTENDS Integers, Sequences, FiniteSets, TLC, Json
CONSTANTS MaxParty, MaxIdx

Ascii(c) == CASE c = "G" -> 71 [] c = "H" -> 72 [] c = "e" -> 101 [] c = "n" -> 110 [] c = "r" -> 114 [] c = "a" -> 97 [] c = "t" -> 116
              [] c = "o" -> 111 [] c = "s" -> 115 [] c = "C" -> 67 [] c = "h" -> 104 [] c = "i" -> 105
              [] c = "R" -> 82 [] c = "I" -> 73 [] c = "S" -> 83 [] c = "T" -> 84 [] c = "E" -> 69 [] c = "O" -> 79 [] c = "_" -> 95
              [] c = "M" -> 77 [] c = "A" -> 65 [] c = "K" -> 75 [] c = "N" -> 78 [] c = "B" -> 66 [] c = "P" -> 80
Bytes(s) == [i \in 1..Len(s) |-> Ascii(s[i])]
Prefix == Bytes(<<"G","e","n","e","r","a","t","o","r","s","C","h","a","i","n">>)
MaskPrefix == Bytes(<<"R","I","S","T","R","E","T","T","O","_","M","A","S","K","I","N","G","_","B","A","S","E","P","O","I","N","T","_">>)
LE32(x) == <<x % 256, (x \div 256) % 256, (x \div 65536) % 256, (x \div 16777216) % 256>>
ChainLabel(kind, party) == <<Ascii(kind)>> \o LE32(party)
Digit(d) == 48 + d
MaskLabel(k) == MaskPrefix \o <<Digit(k)>>                       \* k in 1..6: one decimal digit

\* the hash input that names a generator (the XOF block index is part of the name)
Name(kind, party, i) == <<Prefix \o ChainLabel(kind, party), i>>
Kinds == {"G", "H"}
AllNames == { Name(k, p, i) : k \in Kinds, p \in 0..(MaxParty-1), i \in 0..(MaxIdx-1) }
Injective == Cardinality(AllNames) = 2 * MaxParty * MaxIdx
MaskInjective == Cardinality({MaskLabel(k) : k \in 1..6}) = 6
\* no vector-generator hash input is a blinding-generator hash input (different hash functions as well)
Disjoint == \A k \in 1..6 : \A kk \in Kinds, p \in 0..(MaxParty-1) : MaskLabel(k) # Prefix \o ChainLabel(kk, p)

\* layout
Pos(kind, party, i, n) == 2 * (party * n + i) + (IF kind = "H" THEN 1 ELSE 0)
AggOrder(n, m) == [x \in 1..(n*m) |-> <<(x-1) \div n, (x-1) % n>>]       \* (party, i) of the x-th aggregated generator
Layout == \A n \in {1, 2, 4, 8}, cap \in {1, 2, 4} :
            /\ { Pos(k, p, i, n) : k \in Kinds, p \in 0..(cap-1), i \in 0..(n-1) } = 0..(2*n*cap - 1)
            /\ \A x \in 1..(n*cap) : LET pi == AggOrder(n, cap)[x] IN
                 Pos("G", pi[1], pi[2], n) = 2*(x-1) /\ Pos("H", pi[1], pi[2], n) = 2*(x-1) + 1
\* capacity independence: the first m parties' positions and names are the same whatever the capacity
CapIndep == \A n \in {1, 2, 4, 8}, m \in {1, 2}, c1 \in {2, 4}, c2 \in {2, 4} :
              \A x \in 1..(n*m) : AggOrder(n, c1)[x] = AggOrder(n, c2)[x]

VARIABLES done
Init == done = FALSE
Next == done' = TRUE
Spec == Init /\ [][Next]_done
Script == [prefix |-> Prefix, mask_prefix |-> MaskPrefix,
           labels |-> { [kind |-> k, party |-> p, bytes |-> ChainLabel(k, p)] : k \in Kinds, p \in 0..(MaxParty-1) },
           mask_labels |-> [k \in 1..6 |-> MaskLabel(k)], block |-> 64, value_generator |-> "ristretto basepoint",
           order |-> "party-major", position |-> "2*(party*n+i)+[kind=H]"]
Emit == done => PrintT(<<"REPLAY", ToJson(Script)>>)
====
