---- MODULE GuardsUnbounded ----
(***************************************************************************************************)
(* C06 / C07, symbolic: the prover's guard sequence (as in BPPApi!PGuard) against the witness         *)
(* relation, with every value and promise an ARBITRARY 64-bit number (symbolic integers, not the       *)
(* boundary classes TLC enumerates), for bit lengths 1..64 and aggregates of up to 4 commitments;     *)
(* and the verifier's promise-size guard against "the promise fits the bit length".                   *)
(***************************************************************************************************)
EXTENDS Integers

VARIABLES
  \* @type: Int;
  n,
  \* @type: Int;
  m,
  \* @type: Int -> Int;
  v,
  \* @type: Int -> Int;
  p,
  \* @type: Str;
  wit,
  \* @type: Str;
  out

U64Max == 18446744073709551615
Pow(nn) == IF nn = 1 THEN 2 ELSE IF nn = 2 THEN 4 ELSE IF nn = 4 THEN 16 ELSE IF nn = 8 THEN 256 ELSE IF nn = 16 THEN 65536
           ELSE IF nn = 32 THEN 4294967296 ELSE 18446744073709551616
Idx == 1..4
\* p[j] = -1 encodes an absent promise
PVal(j) == IF p[j] = -1 THEN 0 ELSE p[j]

Init == /\ n \in {1, 2, 4, 8, 16, 32, 64} /\ m \in 1..4
        /\ v \in [Idx -> Int] /\ p \in [Idx -> Int]
        /\ \A j \in Idx : 0 <= v[j] /\ v[j] <= U64Max /\ -1 <= p[j] /\ p[j] <= U64Max
        /\ wit \in {"ok", "fewer", "more", "degree", "blind", "value"}
        /\ out = "none"

\* the code's guards in order; the range guard is skipped for 64 bits (no u64 can overflow it)
Guard == IF wit = "fewer" \/ wit = "more" THEN "err"
         ELSE IF wit = "degree" THEN "err"
         ELSE IF \E j \in Idx : j <= m /\ n < 64 /\ v[j] >= Pow(n) THEN "err"
         ELSE IF wit = "blind" \/ wit = "value" THEN "err"
         ELSE IF \E j \in Idx : j <= m /\ p[j] # -1 /\ p[j] > v[j] THEN "err"       \* checked_sub fails
         ELSE "ok"
Valid == wit = "ok" /\ \A j \in Idx : j <= m => (PVal(j) <= v[j] /\ v[j] < Pow(n))

Next == \/ out = "none" /\ out' = Guard /\ UNCHANGED <<n, m, v, p, wit>>
        \/ out # "none" /\ UNCHANGED <<n, m, v, p, wit, out>>
C06 == out # "none" => ((out = "ok") <=> Valid)
\* whenever a proof is emitted, value - promise is an n-bit number (what the bit decomposition needs)
C07 == out = "ok" => \A j \in Idx : j <= m => (0 <= v[j] - PVal(j) /\ v[j] - PVal(j) < Pow(n))
\* a deliberately wrong relation (promise may exceed the value by one): must be refuted
C06Wrong == out # "none" => ((out = "ok") <=> (wit = "ok" /\ \A j \in Idx : j <= m => (PVal(j) <= v[j] + 1 /\ v[j] < Pow(n))))
Both == C06 /\ C07
====
