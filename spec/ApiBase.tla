---- MODULE ApiBase ----
(* Definitions shared by the API machine and the modules that enumerate its scenarios. *)
EXTENDS Integers, Sequences, U64
RECURSIVE Log2(_)
Log2(x) == IF x <= 1 THEN 0 ELSE 1 + Log2(x \div 2)
RECURSIVE Pow2(_)
Pow2(k) == IF k = 0 THEN 1 ELSE 2 * Pow2(k-1)
IsPow2(x) == x >= 1 /\ Pow2(Log2(x)) = x
Min(a, b) == IF a < b THEN a ELSE b

None == <<>>                      \* an absent promise; a present one is a 4-limb u64
PVal(p) == IF p = None THEN U64Zero ELSE p     \* value-wise reading: absent == zero (C07)
NoWit == [kind |-> "ok", j |-> 0]
NoMut == [kind |-> "none", slot |-> "none", j |-> 0, how |-> "none"]
====
