---- MODULE MC_Weights ----
(* Adversary game for batch weighting (C08).  Weights are formal indeterminates (generic random-oracle outputs).
   A batch is accepted iff  sum_i w_i * delta_i  vanishes identically, delta_i being the defect the adversary put into
   proof i by shifting one response scalar; defects may be +-1 or +-(an OBSERVED weight) -- the adaptive adversary. *)
EXTENDS Integers, FiniteSets, TLC
CONSTANTS Policy      \* "bound": weight depends on every member's responses; "nod1": blind to the shifted response; "const"
Proofs == {1, 2}
Unit == <<"unit", 0, 0, 0>>
Sym(i, v) == CASE Policy = "bound" -> <<"w", i, v[1], v[2]>>
               [] Policy = "nod1"  -> <<"w", i, 0, 0>>
               [] Policy = "const" -> <<"one", 0, 0, 0>>
VARIABLES ver, seen, delta, accepted, runs
vars == <<ver, seen, delta, accepted, runs>>
Init == ver = [i \in Proofs |-> 0] /\ seen = {} /\ delta = [i \in Proofs |-> [c |-> 0, s |-> Unit]] /\ accepted = FALSE /\ runs = 0
Mon(i) == LET w == Sym(i, ver)  s == delta[i].s IN
          IF s = Unit THEN [syms |-> {w}, sq |-> FALSE] ELSE [syms |-> {w, s}, sq |-> (w = s)]
Live == {i \in Proofs : delta[i].c # 0}
SumC(S) == IF S = {} THEN 0 ELSE IF S = {1} THEN delta[1].c ELSE IF S = {2} THEN delta[2].c ELSE delta[1].c + delta[2].c
Vanishes == \A i \in Live : SumC({j \in Live : Mon(j) = Mon(i)}) = 0
Observe == /\ runs < 2 /\ runs' = runs + 1
           /\ seen' = seen \cup {Sym(i, ver) : i \in Proofs}
           /\ accepted' = (Live # {} /\ Vanishes)
           /\ UNCHANGED <<ver, delta>>
Forge == /\ runs = 1 /\ ver = [i \in Proofs |-> 0]
         /\ \E d \in [Proofs -> [c : {-1, 0, 1}, s : {Unit} \cup seen]] :
              /\ delta' = d
              /\ ver' = [i \in Proofs |-> IF d[i].c # 0 THEN 1 ELSE 0]
         /\ UNCHANGED <<seen, accepted, runs>>
Next == Observe \/ Forge
Spec == Init /\ [][Next]_vars
NoCancel == ~accepted
====
