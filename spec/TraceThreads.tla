---- MODULE TraceThreads ----
(***************************************************************************************************)
(* Trace validation of concurrent executions (C18): events are `Ref{call, digest}` (the result of a   *)
(* call computed alone in a fresh single-threaded process) and `Ret{run, th, seq, call, digest}`      *)
(* recorded per thread with a per-thread sequence number (never merged by wall clock).  The only law   *)
(* used is purity: every return of call c carries the reference digest of c; per thread the sequence   *)
(* numbers increase.                                                                                  *)
(***************************************************************************************************)
EXTENDS Integers, Sequences, FiniteSets, TLC, Json, IOUtils
Rec == ndJsonDeserialize(IOEnv.TRACE)
NRec == Len(Rec)
VARIABLES l, ref, last
vars == <<l, ref, last>>
Init == l = 1 /\ ref = [c \in {} |-> 0] /\ last = [k \in {} |-> 0]
Is(name) == l <= NRec /\ Rec[l].ev = name
Ext(f, x, v) == [y \in (DOMAIN f) \cup {x} |-> IF y = x THEN v ELSE f[y]]
RefEv == /\ Is("Ref") /\ Rec[l].call \notin DOMAIN ref /\ ref' = Ext(ref, Rec[l].call, Rec[l].digest) /\ l' = l + 1 /\ UNCHANGED last
RetEv == /\ Is("Ret")
         /\ LET e == Rec[l]  k == <<e.run, e.th>> IN
            /\ e.call \in DOMAIN ref /\ e.digest = ref[e.call]
            /\ (k \in DOMAIN last => e.seq > last[k])
            /\ last' = Ext(last, k, e.seq)
         /\ l' = l + 1 /\ UNCHANGED ref
Next == RefEv \/ RetEv
Spec == Init /\ [][Next]_vars
ASSUME TLCSet(41, 0)
Progress == TLCSet(41, IF TLCGet(41) < l THEN l ELSE TLCGet(41))
Accepted == IF TLCGet(41) = NRec + 1 THEN TRUE
            ELSE PrintT(<<"REJECTED", TLCGet(41), IF TLCGet(41) <= NRec THEN [ev |-> Rec[TLCGet(41)].ev, scen |-> Rec[TLCGet(41)].scen] ELSE "end">>) /\ FALSE
====
