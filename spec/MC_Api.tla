---- MODULE MC_Api ----
(***************************************************************************************************)
(* Model-checking configurations of BPPApi: each `Family` is a set of scenarios (DESIGN §4.3).     *)
(* Every terminal behaviour is printed as one REPLAY line carrying the scenario and the outcome    *)
(* the specification predicts; the harness executes it on the real library (spec -> impl).         *)
(***************************************************************************************************)
EXTENDS Integers, Sequences, FiniteSets, TLC, ApiBase, Json

CONSTANTS Family, Tier, MaxBatch, LoopAllChunks, WholeBatchConsistency


AllN == {1, 2, 4, 8, 16, 32, 64}
Quick == Tier = "quick"

\* ---- value and promise classes -> concrete u64 ---------------------------------------------------
Val(cls, n) ==
  CASE cls = "zero" -> U64Zero
    [] cls = "one"  -> U64One
    [] cls = "mid"  -> U64Pow2(n - 1)
    [] cls = "max"  -> U64MaxBits(n)
    [] cls = "over" -> IF n >= 64 THEN U64Max ELSE U64Pow2(n)
    [] cls = "b63"  -> U64Pow2(63)
    [] cls = "p32"  -> IF n > 32 THEN U64Pow2(32) ELSE U64MaxBits(n)                 \* 2^32: the first value a 32-bit truncation loses
    [] cls = "p32m" -> IF n >= 32 THEN <<65535, 65535, 0, 0>> ELSE U64MaxBits(n)     \* 2^32 - 1
    [] cls = "alt"  -> IF n >= 64 THEN <<43690, 43690, 43690, 43690>> ELSE IF n >= 16 THEN <<43690, 0, 0, 0>> ELSE U64MaxBits(n)   \* 1010...
    [] cls = "umax" -> U64Max
Prom(cls, v, n) ==
  CASE cls = "none" -> None
    [] cls = "zero" -> U64Zero
    [] cls = "lt"   -> IF v = U64Zero THEN U64Zero ELSE U64Dec(v)
    [] cls = "eq"   -> v
    [] cls = "gt"   -> IF v = U64Max THEN U64Max ELSE U64Inc(v)
    [] cls = "max"  -> U64MaxBits(n)
    [] cls = "over" -> IF n >= 64 THEN U64Max ELSE U64Pow2(n)
    [] cls = "umax" -> U64Max

\* a member with value class vb everywhere except class vs at position js (same for promises)
Member(n, t, m, cap, vb, vs, js, pb, ps, jp, seed, label, rng) ==
  LET vals  == [j \in 1..m |-> Val(IF j = js THEN vs ELSE vb, n)]
      proms == [j \in 1..m |-> Prom(IF j = jp THEN ps ELSE pb, vals[j], n)]
  IN [n |-> n, t |-> t, m |-> m, cap |-> cap, vals |-> vals, proms |-> proms, seed |-> seed, label |-> label,
      rng |-> rng, wit |-> NoWit, mut |-> NoMut, bseed |-> 0, rvar |-> 0, zb |-> 0, ppg |-> 0, wshift |-> 0, eqb |-> 0, zk |-> 0,
      v |-> [n |-> n, t |-> t, cap |-> cap, proms |-> proms, seed |-> seed, label |-> label, pgH |-> 0, pgG |-> 0,
             commit |-> "same", cj |-> 0]]
Plain(n, t, m, cap, seed) == Member(n, t, m, cap, "mid", "mid", 0, "none", "none", 0, seed, 0, "chacha")

\* `fill`: for batches, a valid member of the batch's shared (n, t) the harness may insert between the members of a
\* model chunk to bring it to the real chunk size (DESIGN C03); empty otherwise
\* `pair`: the harness also runs the unperturbed baseline verification first (C04 pairs); `first`: index of the first
\* challenge drawn after the perturbed datum (0: none may change); `wdiff`: the batch-weight input must change (C08)
ScenP(members, mode, skew, viabytes, fill, pair, first, wdiff) ==
  [members |-> members, mode |-> mode, skew |-> skew, viabytes |-> viabytes, fill |-> fill, pair |-> pair, first |-> first, wdiff |-> wdiff,
   samecommit |-> FALSE]
ScenF(members, mode, skew, viabytes, fill) == ScenP(members, mode, skew, viabytes, fill, FALSE, 0, FALSE)
Scen(members, mode, skew, viabytes) == ScenF(members, mode, skew, viabytes, <<>>)
One(mb, mode) == Scen(<<mb>>, mode, <<0, 0, 0>>, FALSE)
Modes == {"VerifyOnly", "RecoverAndVerify", "RecoverOnly"}
NoSkew == <<0, 0, 0>>

MCap(maxm, maxcap) == {mc \in {1,2,4,8,16,32} \X {1,2,4,8,16,32} : mc[1] <= mc[2] /\ mc[1] <= maxm /\ mc[2] <= maxcap}

(***************************************************************************************************)
(* complete (C01): honest members over the configuration lattice, three slices                      *)
(***************************************************************************************************)
FamComplete ==
  LET S1 == { One(Plain(n, t, mc[1], mc[2], IF mc[1] = 1 /\ t % 2 = 0 THEN 1 ELSE 0), "RecoverAndVerify") :
                n \in AllN, t \in (IF Quick THEN {1, 2, 6} ELSE 1..6),
                mc \in (IF Quick THEN {<<1,1>>, <<1,4>>, <<2,2>>, <<2,8>>, <<4,4>>, <<8,8>>, <<8,16>>} ELSE MCap(32, 32)) }
      S2 == { One(Member(n, 1, m, m, vb, vs, js, "none", ps, js, IF m = 1 THEN sd ELSE 0, 0, "chacha"), mode) :
                n \in AllN, m \in {1, 2}, vb \in {"mid"}, vs \in {"zero", "one", "mid", "max", "p32", "p32m", "alt"}, js \in {1, 2},
                ps \in {"none", "zero", "lt", "eq"}, sd \in {0, 1}, mode \in Modes }
      S3 == { One(Member(n, t, 1, 1, "mid", "mid", 0, "lt", "lt", 0, sd, lb, rng), mode) :
                n \in {2, 64}, t \in 1..6, sd \in {0, 1}, lb \in {0, 1, 2},
                rng \in {"chacha", "zero", "const", "ctr", "p2", "os"}, mode \in {"VerifyOnly", "RecoverAndVerify"} }
      \* openings whose blinding factors are all zero at one position (value 0 then gives the identity as commitment)
      S4 == { One([Member(n, t, m, m, "mid", vs, js, "none", ps, js, IF m = 1 THEN sd ELSE 0, 0, "chacha") EXCEPT !.zb = js], mode) :
                n \in {1, 8, 64}, t \in {1, 3}, m \in {1, 4}, vs \in {"zero", "one"}, js \in {1, 4}, ps \in {"none", "zero"}, sd \in {0, 1},
                mode \in {"VerifyOnly", "RecoverAndVerify"} }
      \* sizes beyond the everyday ones: many commitments, large capacities (bits*aggregation up to 4096)
      S5 == { One(Plain(n, t, mc[1], mc[2], 0), "VerifyOnly") :
                n \in {1, 4, 64}, t \in {1, 6}, mc \in {<<16, 16>>, <<16, 64>>, <<32, 32>>, <<64, 64>>, <<1, 64>>, <<2, 128>>} }
         \cup { One(Plain(1, 1, mc[1], mc[2], 0), "VerifyOnly") : mc \in {<<256, 256>>, <<512, 512>>, <<512, 1024>>} }
      \* the same opening at two adjacent positions (one commitment point twice in one statement), with promises on either or both
      S6 == { One([Member(n, t, m, m, "mid", "mid", 0, "none", ps, j, 0, 0, "chacha") EXCEPT !.eqb = j], mode) :
                n \in {4, 64}, t \in {1, 2}, m \in {2, 4}, j \in 2..4, ps \in {"none", "lt", "eq"}, mode \in {"VerifyOnly", "RecoverAndVerify"} }
            \cup { One([Member(n, 1, m, m, "mid", "mid", 0, "lt", "eq", j, 0, 0, "chacha") EXCEPT !.eqb = j], "VerifyOnly") : n \in {4, 64}, m \in {2, 4}, j \in 2..4 }
  IN S1 \cup S2 \cup S3 \cup {s \in S4 : s.members[1].zb <= s.members[1].m} \cup S5 \cup {s \in S6 : s.members[1].eqb <= s.members[1].m}

(***************************************************************************************************)
(* witness (C06): every single violation of the witness relation at every position                  *)
(***************************************************************************************************)
FamWitness ==
  LET NsW == IF Quick THEN {1, 4, 32, 64} ELSE AllN
      Ms  == IF Quick THEN {1, 2, 4} ELSE {1, 2, 4, 8}
      \* boundary values and promises at one position
      B == { One(Member(n, t, m, m, "mid", vs, j, "none", ps, j, 0, 0, "chacha"), "VerifyOnly") :
               n \in NsW, t \in {1, 2}, m \in Ms, j \in 1..8,
               vs \in {"zero", "one", "mid", "max", "over", "b63", "umax"},
               ps \in {"none", "zero", "lt", "eq", "gt", "max", "over", "umax"} }
      \* deviating witnesses at one position
      W == { One([Member(n, t, m, m, "mid", "max", j, "none", "eq", j, 0, 0, "chacha") EXCEPT !.wit = [kind |-> wk, j |-> j]], "VerifyOnly") :
               n \in NsW, t \in {1, 2, 3}, m \in Ms, j \in 1..8, wk \in {"fewer", "more", "degree", "blind", "value"} }
      \* two openings that are wrong in compensating ways (swapped; value moved from one to the other): m >= 2, positions j, j+1
      W2 == { One([Member(n, t, m, m, "mid", "one", j, "none", "none", 0, 0, 0, "chacha") EXCEPT !.wit = [kind |-> wk, j |-> j]], "VerifyOnly") :
                n \in NsW \ {1}, t \in {1, 2}, m \in Ms \ {1}, j \in 1..7, wk \in {"swap", "shift"} }
      \* a witness edited after its construction (its fields are public): one opening with a surplus blinding factor, or with none
      W3 == { One([Member(n, t, m, m, "mid", "one", j, "none", "none", 0, 0, 0, "chacha") EXCEPT !.wit = [kind |-> wk, j |-> j]], "VerifyOnly") :
                n \in {4, 64}, t \in {1, 2, 5}, m \in Ms, j \in 1..8, wk \in {"ragmore", "ragnone"} }
      \* TWO positions out of range at once (equal or different excess)
      B2 == { One([Member(n, t, m, m, "mid", vs, j, "none", "none", 0, 0, 0, "chacha") EXCEPT !.vals[j2] = Val(vs2, n)], "VerifyOnly") :
                n \in {4, 8, 32}, t \in {1}, m \in Ms \ {1}, j \in 1..7, j2 \in 2..8, vs \in {"over", "b63", "umax"}, vs2 \in {"over", "b63", "umax", "max"} }
      \* two ADJACENT positions holding the same opening (same value, same blinding factors: one and the same commitment point)
      \* under different promises: each position is still judged on its own
      E == { One([[Member(n, t, m, m, "mid", "mid", 0, pb, ps, j, 0, 0, "chacha") EXCEPT !.eqb = j2] EXCEPT !.proms[j2] = Prom(ps2, Val("mid", n), n),
                                                                                                     !.v.proms[j2] = Prom(ps2, Val("mid", n), n)], "VerifyOnly") :
               n \in {4, 64}, t \in {1, 2}, m \in Ms \ {1}, j \in 1..8, j2 \in 2..8, pb \in {"none"}, ps \in {"none", "lt", "eq", "gt"}, ps2 \in {"none", "lt", "eq", "gt"} }
      \* ONE component of a blinding vector is zero (degree >= 2), at one position of an aggregate
      Zk == { One([Member(n, t, m, m, "mid", "one", j, "none", "none", 0, 0, 0, "chacha") EXCEPT !.zb = j, !.zk = k], "VerifyOnly") :
                n \in {4, 64}, t \in {2, 3}, m \in {1, 2, 4}, j \in 1..4, k \in 1..3 }
      \* many commitments, one promise not met (or one value out of range) at an early, a middle and a late position
      Wide == { One(Member(2, 1, 128, 128, "mid", vs, j, "none", ps, j, 0, 0, "chacha"), "VerifyOnly") :
                  j \in {1, 64, 65, 100, 128}, vs \in {"one", "over"}, ps \in {"none", "eq", "gt"} }
      \* all-zero blinding vectors (with value zero the commitment is the identity)
      Z == { One([Member(n, t, m, m, "mid", vs, j, "none", ps, j, 0, 0, "chacha") EXCEPT !.zb = j], "VerifyOnly") :
               n \in NsW, t \in {1, 2}, m \in Ms, j \in 1..4, vs \in {"zero", "one"}, ps \in {"none", "zero"} }
  IN {s \in B \cup W \cup W3 : s.members[1].wit.j <= s.members[1].m} \cup {s \in W2 : s.members[1].wit.j < s.members[1].m}
     \cup {s \in B2 : \E j \in 1..7, j2 \in 2..8 : j < j2 /\ j2 <= s.members[1].m /\ s.members[1].vals[j] # Val("mid", s.members[1].n) /\ s.members[1].vals[j2] # Val("mid", s.members[1].n)}
     \cup {s \in Z : s.members[1].zb <= s.members[1].m}
     \cup Wide
     \cup {s \in Zk : s.members[1].zb <= s.members[1].m /\ s.members[1].zk <= s.members[1].t}
     \cup {s \in E : s.members[1].eqb <= s.members[1].m /\ \E j \in 1..8 : j <= s.members[1].m /\ (j = s.members[1].eqb - 1 \/ j = s.members[1].eqb)}

(***************************************************************************************************)
(* alter (C05): one alteration of an accepted triple                                                *)
(***************************************************************************************************)
MutSet(t, k) ==
     { [kind |-> "scalar", slot |-> sl, j |-> 0, how |-> h] : sl \in {"r1", "s1"}, h \in {"rand", "zero", "plus1", "noncanon"} }
  \cup { [kind |-> "scalar", slot |-> "d1", j |-> kk, how |-> h] : kk \in 0..(t-1), h \in {"rand", "zero", "plus1", "noncanon"} }
  \cup { [kind |-> "point", slot |-> sl, j |-> 0, how |-> h] : sl \in {"A", "A1", "B"}, h \in {"rand", "identity", "undecodable", "other"} }
  \cup { [kind |-> "point", slot |-> sl, j |-> jj, how |-> h] : sl \in {"L", "R"}, jj \in 0..(k-1), h \in {"rand", "identity", "undecodable", "other"} }
  \cup { [kind |-> "rounds", slot |-> "none", j |-> d, how |-> "none"] : d \in {-1, 1, 2, 30, 61, 62, 63, 64, 70} }
  \cup { [kind |-> "tag", slot |-> "none", j |-> tt, how |-> "none"] : tt \in (0..8) \ {t} }
  \cup { [kind |-> "bytes", slot |-> "none", j |-> 0, how |-> h] : h \in {"trailing1", "trailing32", "truncate1", "truncate32"} }
VChanges(mb) ==
     { [mb.v EXCEPT !.proms[j] = Prom(pc, mb.vals[j], mb.n)] : j \in 1..mb.m, pc \in {"none", "zero", "lt", "eq", "gt", "max", "over", "umax"} }
  \cup { [mb.v EXCEPT !.label = 1 - mb.label], [mb.v EXCEPT !.label = 2] }
  \cup { [mb.v EXCEPT !.pgH = 1] }
  \cup { [mb.v EXCEPT !.pgG = kk] : kk \in 1..mb.t }
  \cup { [mb.v EXCEPT !.commit = "rand", !.cj = j] : j \in 1..mb.m }
  \cup { [mb.v EXCEPT !.commit = "swap", !.cj = j] : j \in 1..(mb.m - 1) }
  \cup { [mb.v EXCEPT !.commit = "cache", !.cj = j] : j \in 1..mb.m }         \* only the cached encoding of commitment j (a public field)
  \cup { [mb.v EXCEPT !.n = nn] : nn \in AllN \ {mb.n} }
  \cup { [mb.v EXCEPT !.cap = cc] : cc \in {c \in {1, 2, 4, 8, 16} : c >= mb.m} }
  \cup { [mb.v EXCEPT !.seed = s] : s \in (IF mb.m = 1 THEN {0, 1, 2} ELSE {0}) }
Bases == IF Quick THEN { <<4, 1, 1, 1, 1>>, <<8, 2, 2, 2, 0>>, <<64, 3, 1, 2, 0>>, <<2, 6, 4, 4, 0>> }
         ELSE { <<n, t, mc[1], mc[2], IF mc[1] = 1 THEN 1 ELSE 0>> : n \in {2, 8, 64}, t \in {1, 2, 3, 6}, mc \in {<<1,1>>, <<1,2>>, <<2,2>>, <<4,8>>} }
BaseMember(b) == Member(b[1], b[2], b[3], b[4], "mid", "max", 1, "none", "lt", b[3], b[5], 0, "chacha")
FamAlter ==
  LET MutS == UNION { { One([BaseMember(b) EXCEPT !.mut = mu], mode) : mu \in MutSet(b[2], Log2(b[1] * b[3])) } :
                      b \in Bases, mode \in {"VerifyOnly", "RecoverAndVerify"} }
      VS   == UNION { { One([BaseMember(b) EXCEPT !.v = vv], "VerifyOnly") : vv \in VChanges(BaseMember(b)) } : b \in Bases }
      \* a statement over many commitments (two transcript "blocks" of 64 and more): each commitment, its cached encoding, the context
      \* and H are still bound
      Wide == LET mb == Member(2, 1, 128, 128, "mid", "max", 1, "none", "lt", 128, 0, 0, "chacha") IN
              { One([mb EXCEPT !.v = vv], "VerifyOnly") :
                  vv \in { [mb.v EXCEPT !.commit = k, !.cj = j] : k \in {"rand", "cache"}, j \in {1, 3, 64, 66, 128} }
                       \cup { [mb.v EXCEPT !.commit = "swap", !.cj = j] : j \in {2, 70} }
                       \cup { [mb.v EXCEPT !.label = 1], [mb.v EXCEPT !.pgH = 1], [mb.v EXCEPT !.proms[70] = U64One], mb.v } }
  IN MutS \cup VS \cup Wide

(***************************************************************************************************)
(* promise (C07)                                                                                    *)
(***************************************************************************************************)
FamPromise ==
  \* many commitments with promises at late positions
  { One([mb EXCEPT !.v.proms[j] = Prom(pc, mb.vals[j], mb.n)], "VerifyOnly") :
      mb \in { Member(2, 1, 16, 16, "mid", "max", js, "none", ps, js, 0, 0, "chacha") : js \in {1, 9, 16}, ps \in {"lt", "eq"} } \cup
              { Member(2, 1, 16, 16, "mid", "max", 3, "eq", "lt", 12, 0, 0, "chacha") },
      j \in {9, 16}, pc \in {"none", "lt", "eq", "gt"} }
  \cup UNION { { One([mb EXCEPT !.v.proms[j] = Prom(pc, mb.vals[j], mb.n)], "VerifyOnly") :
              j \in 1..mb.m, pc \in {"none", "zero", "lt", "eq", "gt", "max", "over", "umax"} } :
          mb \in { Member(n, t, m, m, "mid", vs, js, pb, ps, js, 0, 0, "chacha") :
                     n \in (IF Quick THEN {2, 64} ELSE AllN), t \in (IF Quick THEN {1} ELSE {1, 2}), m \in {1, 2, 4}, js \in (IF Quick THEN {1, 4} ELSE {1, 2, 4}),
                     vs \in {"zero", "one", "mid", "max"}, pb \in (IF Quick THEN {"none", "eq"} ELSE {"none", "zero", "eq"}), ps \in {"none", "zero", "lt", "eq"} } }

(***************************************************************************************************)
(* batch (C03): verdict == conjunction, alignment, shape refusals, beyond the chunk limit            *)
(***************************************************************************************************)
\* member menu over a shared (n, t)
Kind(n, t, kd) ==
  CASE kd = "v1"   -> Plain(n, t, 1, 1, 0)
    [] kd = "v1s"  -> Plain(n, t, 1, 2, 1)
    [] kd = "v2"   -> Plain(n, t, 2, 2, 0)
    [] kd = "v1sL" -> LET mb == Plain(n, t, 1, 1, 1) IN [mb EXCEPT !.label = 1, !.v.label = 1]   \* seeded, made and verified in another context
    [] kd = "v1C"  -> LET mb == Plain(n, t, 1, 2, 1) IN [mb EXCEPT !.label = 2, !.v.label = 2]   \* seeded, context = label + caller state
    [] kd = "v1t"  -> Plain(n, t, 1, 1, 2)                                          \* the other seed, on both sides
    [] kd = "v1st" -> [Plain(n, t, 1, 1, 2) EXCEPT !.v.seed = 1]                     \* made under seed 2, recovered under seed 1
    [] kd = "v1ts" -> [Plain(n, t, 1, 1, 1) EXCEPT !.v.seed = 2]                     \* made under seed 1, recovered under seed 2
    [] kd = "dup"  -> [Plain(n, t, 1, 1, 0) EXCEPT !.bseed = 7]       \* every "dup" member is the same triple (same openings, same RNG stream)
    [] kd = "dupL" -> LET mb == [Plain(n, t, 1, 1, 0) EXCEPT !.bseed = 7] IN [mb EXCEPT !.v.label = 1]   \* the same triple, altered context
    [] kd = "dupC" -> LET mb == [Plain(n, t, 1, 1, 0) EXCEPT !.bseed = 7] IN [mb EXCEPT !.v.label = 2]
    [] kd = "v16"  -> Plain(n, t, 16, 16, 0)
    [] kd = "v4c8" -> Plain(n, t, 4, 8, 0)
    [] kd = "v1c16" -> Plain(n, t, 1, 16, 0)
    [] kd = "xs"   -> [Plain(n, t, 1, 1, 0) EXCEPT !.mut = [kind |-> "scalar", slot |-> "d1", j |-> t - 1, how |-> "plus1"]]
    [] kd = "xp"   -> [Plain(n, t, 2, 4, 0) EXCEPT !.mut = [kind |-> "point", slot |-> "L", j |-> 0, how |-> "rand"]]
    [] kd = "xi"   -> [Plain(n, t, 1, 1, 0) EXCEPT !.mut = [kind |-> "point", slot |-> "A1", j |-> 0, how |-> "identity"]]   \* refused half-way: a point is the identity
    [] kd = "xv"   -> [Member(n, t, 1, 1, "mid", "mid", 0, "lt", "lt", 0, 1, 0, "chacha") EXCEPT !.v.proms[1] = None]
    [] kd = "xl"   -> [Plain(n, t, 1, 1, 1) EXCEPT !.v.label = 1]
    [] kd = "xr"   -> [Plain(n, t, 2, 2, 0) EXCEPT !.mut = [kind |-> "rounds", slot |-> "none", j |-> -1, how |-> "none"]]   \* too few rounds
    [] kd = "xk"   -> [Plain(n, t, 1, 1, 0) EXCEPT !.mut = [kind |-> "rounds", slot |-> "none", j |-> 1, how |-> "none"]]    \* too many rounds
    [] kd = "dn"   -> Plain(IF n = 4 THEN 8 ELSE 4, t, 1, 1, 0)                      \* disagrees on bit length
    [] kd = "dt"   -> Plain(n, IF t = 1 THEN 2 ELSE 1, 1, 1, 0)                      \* disagrees on degree
    [] kd = "dh"   -> LET mb == Plain(n, t, 1, 1, 0) IN [mb EXCEPT !.v.pgH = 1]      \* disagrees on H (and is invalid)
    [] kd = "dg"   -> LET mb == Plain(n, t, 1, 1, 0) IN [mb EXCEPT !.v.pgG = 1]      \* disagrees on G_1
    [] kd = "dhc"  -> LET mb == Plain(n, t, 1, 1, 0) IN [mb EXCEPT !.v.pgH = 2]      \* only the cached ENCODING of H differs (public field)
    [] kd = "dgc"  -> LET mb == Plain(n, t, 1, 1, 0) IN [mb EXCEPT !.v.pgG = 200]    \* only the cached encoding of G_1 differs
    [] kd = "v32"  -> Plain(n, t, 32, 32, 0)
    [] kd = "v64"  -> Plain(n, t, 64, 64, 0)
    [] kd = "dupX"  -> [[Plain(n, t, 1, 1, 0) EXCEPT !.bseed = 7] EXCEPT !.mut = [kind |-> "scalar", slot |-> "d1", j |-> 0, how |-> "plus1"]]   \* the same triple with one response altered
    [] kd = "dupP"  -> LET mb == [Plain(n, t, 1, 1, 0) EXCEPT !.bseed = 7] IN [mb EXCEPT !.v.proms[1] = U64One]    \* the same triple under a substituted promise
    [] kd = "dupS"  -> [Plain(n, t, 1, 1, 1) EXCEPT !.bseed = 7]                      \* the same SEEDED triple ...
    [] kd = "dupSL" -> LET mb == [Plain(n, t, 1, 1, 1) EXCEPT !.bseed = 7] IN [mb EXCEPT !.v.label = 1]   \* ... handed in with another context
    [] kd = "dupSw" -> LET mb == [Plain(n, t, 1, 1, 1) EXCEPT !.bseed = 7] IN [mb EXCEPT !.v.seed = 2]    \* ... recovered under the wrong seed
    [] kd = "dupSn" -> LET mb == [Plain(n, t, 1, 1, 1) EXCEPT !.bseed = 7] IN [mb EXCEPT !.v.seed = 0]    \* ... a public copy: no seed on the verifier's side
    [] kd = "dup16"  -> [Plain(n, t, 16, 16, 0) EXCEPT !.bseed = 7]                  \* the same aggregated triple twice ...
    [] kd = "dup16L" -> LET mb == [Plain(n, t, 16, 16, 0) EXCEPT !.bseed = 7] IN [mb EXCEPT !.v.label = 1]   \* ... the second in an altered context
    [] kd = "vn"   -> LET mb == Plain(n, t, 1, 1, 0) IN [mb EXCEPT !.v.n = 2 * n]   \* only the verifier-side bit length is raised
    [] kd = "vt"   -> LET mb == Plain(n, t, 1, 1, 0) IN [mb EXCEPT !.v.t = t + 1]   \* only the verifier-side degree is raised
    [] kd = "dh8"  -> LET mb == Plain(n, t, 8, 8, 0) IN [mb EXCEPT !.v.pgH = 1]      \* disagrees on H and is the largest member
    [] kd = "dg8"  -> LET mb == Plain(n, t, 8, 16, 0) IN [mb EXCEPT !.v.pgG = t]     \* disagrees on the last G_k, largest member
ValidKinds == {"v1", "v1s", "v2", "v4c8"}
BadKinds == {"xs", "xp", "xv", "xl", "xr", "xk", "xi"}
DisKinds == {"dn", "dt", "dh", "dg", "dh8", "dg8", "vn", "vt"}
Pattern(pt, x) == CASE pt = 1 -> (IF x % 4 = 0 \/ x = 1 THEN "dup" ELSE "v1") [] pt = 2 -> (IF x % 4 = 3 THEN "v1sL" ELSE IF x % 2 = 1 THEN "v1s" ELSE "v2") [] pt = 3 -> (IF x % 3 = 0 THEN "v4c8" ELSE IF x % 3 = 1 THEN "v1s" ELSE "v1c16")
FamBatch ==
  LET MaxK == 3 * MaxBatch + 1
      NT == IF Quick THEN {<<4, 1>>} ELSE {<<4, 1>>, <<2, 2>>}
      Ks == 1..MaxK
      \* zero, one or two special members at any positions
      Lay == { [k |-> k, pt |-> pt, a |-> a, ka |-> ka, b |-> b, kb |-> kb] :
                 k \in Ks, pt \in (IF Quick THEN {2, 3} ELSE {1, 2, 3}), a \in 0..MaxK, b \in 0..MaxK,
                 ka \in BadKinds \cup DisKinds, kb \in (IF Quick THEN {"xs", "dn"} ELSE {"xs", "xr", "dn", "dh8", "vn"}) }
      Good(l) == l.a <= l.k /\ l.b <= l.k /\ (l.b = 0 \/ l.a < l.b) /\ (l.a = 0 => (l.b = 0 /\ l.ka = "xs")) /\ (l.b = 0 => l.kb = "xs")
                 /\ (Quick /\ l.pt = 3 => l.b = 0)
      Mem(l, nt) == [x \in 1..l.k |-> Kind(nt[1], nt[2], IF x = l.a THEN l.ka ELSE IF x = l.b THEN l.kb ELSE Pattern(l.pt, x))]
      Sk == IF Quick THEN {NoSkew, <<0, 1, 0>>, <<0, 0, -1>>, <<1, 0, 0>>} ELSE {s \in {-1, 0, 1} \X {-1, 0, 1} \X {-1, 0, 1} : s = NoSkew \/ ~(s[1] = s[2] /\ s[2] = s[3])}    \* uniform skews are just other batch sizes
      Plain3(nt, d, a) == [x \in 1..3 |-> Kind(nt[1], nt[2], IF x = a THEN d ELSE "v1")]
      Dups(nt) == { <<Kind(nt[1], nt[2], "dup"), Kind(nt[1], nt[2], "dup")>>,
                    <<Kind(nt[1], nt[2], "dup"), Kind(nt[1], nt[2], "v1s"), Kind(nt[1], nt[2], "dup")>>,
                    <<Kind(nt[1], nt[2], "dup"), Kind(nt[1], nt[2], "xs"), Kind(nt[1], nt[2], "dup")>>,
                    <<Kind(nt[1], nt[2], "dup"), Kind(nt[1], nt[2], "dupL")>>, <<Kind(nt[1], nt[2], "dup"), Kind(nt[1], nt[2], "dup"), Kind(nt[1], nt[2], "dupC")>> }
  IN  { ScenF(Plain3(nt, d, a), "VerifyOnly", NoSkew, FALSE, <<Kind(nt[1], nt[2], "v1")>>) : nt \in NT, d \in DisKinds \cup BadKinds, a \in 1..3 }
  \cup UNION { { ScenF(ms, mode, NoSkew, FALSE, <<Kind(nt[1], nt[2], "v1")>>) : ms \in Dups(nt), mode \in {"VerifyOnly", "RecoverAndVerify"} } : nt \in NT }
  \cup { ScenF(ms, "VerifyOnly", NoSkew, FALSE, <<Kind(64, 1, "v1")>>) :
            ms \in { <<Kind(64, 1, "v16"), Kind(64, 1, "v1"), Kind(64, 1, "xs")>>, <<Kind(64, 1, "v1"), Kind(64, 1, "v16"), Kind(64, 1, "v1")>>,
                      <<Kind(64, 1, "v16"), Kind(64, 1, "v16"), Kind(64, 1, "v1"), Kind(64, 1, "xk")>> } }
  \cup { ScenF(Mem(l, nt), mode, NoSkew, FALSE, <<Kind(nt[1], nt[2], "v1")>>) : l \in {l \in Lay : Good(l)}, nt \in NT, mode \in {"VerifyOnly", "RecoverAndVerify"} }
  \* the FIRST statement's cached generator encodings are what every member's transcript absorbs: altered there, with the largest member later
  \cup { ScenF(<<Kind(4, 1, d)>> \o rest, "VerifyOnly", NoSkew, FALSE, <<Kind(4, 1, "v1")>>) :
          d \in {"dhc", "dgc"}, rest \in { <<Kind(4, 1, "v2")>>, <<Kind(4, 1, "v1"), Kind(4, 1, "v4c8"), Kind(4, 1, "v1")>>, <<Kind(4, 1, "v1")>> } }
  \* the same aggregated triple twice in a row, the second time in another context; and honest runs of it
  \cup { ScenF(ms, "VerifyOnly", NoSkew, FALSE, <<Kind(4, 1, "v1")>>) :
          ms \in { <<Kind(4, 1, "dup16"), Kind(4, 1, "dup16L")>>, <<Kind(4, 1, "dup16"), Kind(4, 1, "dup16")>>, <<Kind(4, 1, "v1"), Kind(4, 1, "dup16"), Kind(4, 1, "dup16L")>> } }
  \* the same triple twice, the second copy with an altered response scalar (all points equal, responses different)
  \cup { ScenF(ms, "VerifyOnly", NoSkew, FALSE, <<Kind(4, 1, "v1")>>) :
          ms \in { <<Kind(4, 1, "dup"), Kind(4, 1, "dupX")>>, <<Kind(4, 1, "dupX"), Kind(4, 1, "dup")>>, <<Kind(4, 1, "v1"), Kind(4, 1, "dup"), Kind(4, 1, "dupX")>> } }
  \* the same triple twice, once under a substituted (in-range) promise
  \cup { ScenF(ms, "VerifyOnly", NoSkew, FALSE, <<Kind(4, 1, "v1")>>) :
          ms \in { <<Kind(4, 1, "dup"), Kind(4, 1, "dupP")>>, <<Kind(4, 1, "dupP"), Kind(4, 1, "dup")>>, <<Kind(4, 1, "v1"), Kind(4, 1, "dup"), Kind(4, 1, "dupP")>> } }
  \* the same seeded triple twice in a row, the second time in another context
  \cup { ScenF(ms, mode, NoSkew, FALSE, <<Kind(4, 1, "v1")>>) :
          ms \in { <<Kind(4, 1, "dupS"), Kind(4, 1, "dupSL")>>, <<Kind(4, 1, "dupS"), Kind(4, 1, "dupS")>>, <<Kind(4, 1, "v1"), Kind(4, 1, "dupS"), Kind(4, 1, "dupSL")>> },
          mode \in Modes }
  \* full chunks of heavily aggregated members (the final check of one chunk then has well over 8192 terms)
  \cup { ScenF(<<Kind(nk[1], 1, nk[2]), Kind(nk[1], 1, nk[2])>>, "VerifyOnly", NoSkew, FALSE, <<Kind(nk[1], 1, nk[2])>>) : nk \in {<<2, "v32">>, <<1, "v64">>} }
  \cup { ScenF(Mem([k |-> k, pt |-> 2, a |-> 0, ka |-> "xs", b |-> 0, kb |-> "xs"], <<4, 1>>), "VerifyOnly", sk, FALSE, <<Kind(4, 1, "v1")>>) : k \in {1, 2, MaxBatch + 1}, sk \in Sk }

(***************************************************************************************************)
(* recover (C09, C10): seeds x modes x valid/invalid, batch compositions                             *)
(***************************************************************************************************)
FamRecover ==
  LET Single == { One([[Member(n, t, 1, cap, "mid", "max", 1, "none", ps, 1, ps_seed, lb, rng) EXCEPT !.v.seed = vs] EXCEPT !.mut = mu], mode) :
                    n \in (IF Quick THEN {1, 8, 64} ELSE AllN), t \in (IF Quick THEN {1, 2, 6} ELSE 1..6), cap \in {1, 2}, ps \in {"none", "lt"}, ps_seed \in {0, 1, 2},
                    lb \in {0}, rng \in (IF Quick THEN {"chacha"} ELSE {"chacha", "zero"}), vs \in {0, 1, 2, 3, 4}, mode \in Modes,
                    mu \in {NoMut, [kind |-> "scalar", slot |-> "d1", j |-> 0, how |-> "plus1"], [kind |-> "point", slot |-> "A1", j |-> 0, how |-> "rand"]} }
      Mix == { ScenF([x \in 1..Len(ks) |-> Kind(8, t, ks[x])], mode, NoSkew, FALSE, <<Kind(8, t, "v1")>>) :
                 ks \in UNION { [1..k -> {"v1", "v1s", "v2", "v1sL", "v1C"}] : k \in 2..(IF Quick THEN 3 ELSE 4) }, t \in (IF Quick THEN {1, 6} ELSE {1, 3, 6}), mode \in Modes }
      \* seeds in every order inside one batch: two seeds, each on the prover's and on the verifier's side, at every position
      SeedMix == { ScenF([x \in 1..Len(ks) |-> Kind(8, t, ks[x])], mode, NoSkew, FALSE, <<Kind(8, t, "v1")>>) :
                     ks \in UNION { [1..k -> {"v1s", "v1t", "v1st", "v1ts"}] : k \in 2..(IF Quick THEN 3 ELSE 4) }, t \in {1, 2}, mode \in Modes }
      \* one output listed several times with different candidate seeds (right, wrong, right ...): each copy is recovered under ITS seed
      Cand == { ScenF([x \in 1..Len(ks) |-> Kind(8, t, ks[x])], mode, NoSkew, FALSE, <<Kind(8, t, "v1")>>) :
                  ks \in { <<"dupS", "dupSw">>, <<"dupSw", "dupS">>, <<"dupS", "dupSw", "dupS">>, <<"dupS", "dupS", "dupSw">>, <<"v1", "dupS", "dupSw">>,
                           <<"dupSn", "dupS">>, <<"dupS", "dupSn">>, <<"dupSn", "dupS", "dupSw">> },
                  t \in {1, 3}, mode \in Modes }
      \* a blinding vector with zero components (all of them, for the one commitment)
      Zb == { One([[Member(n, t, 1, 1, "mid", vs, 1, "none", "none", 1, ps_seed, 0, "chacha") EXCEPT !.v.seed = vs2] EXCEPT !.zb = 1], mode) :
                n \in {8, 64}, t \in {1, 2, 6}, vs \in {"zero", "mid"}, ps_seed \in {0, 1}, vs2 \in {0, 1, 2}, mode \in Modes }
      \* seeds with special VALUES (classes 5, 6, 7 = the zero scalar, one, the largest canonical scalar): a seed is any scalar
      Special == { One([Member(n, t, 1, 1, "mid", "max", 1, "none", "none", 1, ps_seed, 0, "chacha") EXCEPT !.v.seed = vs], mode) :
                     n \in {8, 64}, t \in {1, 6}, ps_seed \in {5, 6, 7}, vs \in {0, 1, 5, 6, 7}, mode \in Modes }
  IN {s \in Single : s.members[1].n > 1 \/ s.members[1].mut.kind = "none"} \cup Mix \cup SeedMix \cup Cand \cup Zb \cup Special

(***************************************************************************************************)
(* capacity (C12)                                                                                    *)
(***************************************************************************************************)
FamCapacity ==
  LET Caps == {1, 2, 4, 8, 16, 32}
      Single == { One([Plain(n, t, m, cp, 0) EXCEPT !.v.cap = cv], "VerifyOnly") :
                    n \in (IF Quick THEN {2, 64} ELSE AllN), t \in {1, 2}, m \in {1, 2, 4, 8}, cp \in Caps, cv \in Caps }
      Mixed == { Scen(<<[Plain(n, 1, m1, c1, 0) EXCEPT !.v.cap = c1v], [Plain(n, 1, m2, c2, 0) EXCEPT !.v.cap = c2v], Plain(n, 1, 1, c3, 0)>>, "VerifyOnly", NoSkew, FALSE) :
                   n \in {2, 8}, m1 \in {1, 2, 4}, m2 \in {1, 4}, c1 \in {4, 8}, c1v \in {4, 16}, c2 \in {4, 16}, c2v \in {4, 8}, c3 \in {1, 32} }
      Big == { One([Plain(64, 1, m, cp, 0) EXCEPT !.v.cap = cv], "VerifyOnly") : m \in {1, 2}, cp \in {2, 64}, cv \in {2, 64, 128} }
         \cup { One([Plain(n, 1, m, cp, 0) EXCEPT !.v.cap = cv], "VerifyOnly") : n \in {4}, m \in {2, 4, 64}, cp \in {128, 256}, cv \in {64, 128, 512} }
         \cup { Scen(<<Plain(64, 1, m1, c1, 0), Plain(64, 1, m2, c2, 0)>>, "VerifyOnly", NoSkew, FALSE) :
                   m1 \in {1, 2}, c1 \in {1, 2, 64}, m2 \in {1, 2}, c2 \in {2, 64} }
  IN {s \in Single \cup Big : \A x \in 1..Len(s.members) : s.members[x].cap >= s.members[x].m /\ s.members[x].v.cap >= s.members[x].m} \cup Mixed

(***************************************************************************************************)
(* hedge (C13, C14): pairs of prover runs with the same blindings and the same (possibly faulty)    *)
(* external RNG stream, identical or differing in exactly one input                                  *)
(***************************************************************************************************)
FamHedge ==
  LET Base == { [Member(n, t, m, m, "mid", "max", 1, "none", "lt", m, sd, 0, rng) EXCEPT !.bseed = 1] :
                  n \in {2, 8}, t \in (IF Quick THEN {1, 2} ELSE {1, 2, 3, 6}), m \in {1, 2}, sd \in {0, 1, 5},      \* (seed class 5: the zero scalar)
                  rng \in {"zero", "const", "p2", "ctr", "chacha", "fail"} }     \* ("fail": try_fill_bytes reports an error and leaves zeros)
      \* the second run: identical, or one input changed (and the verifier-side statement follows it)
      Vary(a) == {a}
            \cup { [a EXCEPT !.label = 1, !.v.label = 1] }
            \cup { LET ps == [a.proms EXCEPT ![j] = IF @ = None THEN U64Zero ELSE U64Dec(@)] IN [a EXCEPT !.proms = ps, !.v.proms = ps] : j \in 1..a.m }
            \cup { [a EXCEPT !.vals[j] = U64Dec(@)] : j \in 1..a.m }
            \cup { [a EXCEPT !.seed = 2, !.v.seed = 2] }
            \cup (IF a.seed = 1 THEN { [a EXCEPT !.seed = 3, !.v.seed = 3] } ELSE {})      \* a seed that differs from seed 1 in its last byte only
            \cup { [a EXCEPT !.rvar = 1] }          \* same inputs, a different external RNG stream (only distinguishable for "chacha")
      \* two openings of the SAME commitments: degenerate blinding generators (G_2 := G_1, possible because the generator
      \* record has public fields) and blindings (r_1 + 1, r_2 - 1); everything public is identical, only the witness differs
      \* (the LAST generator duplicates the one before it and the last two blinding components move, so the first one
      \* is untouched when the degree is 3 or more)
      Dup(a, tt) == [a EXCEPT !.ppg = 100, !.v.pgG = 100, !.t = tt, !.v.t = tt]
      SameC == { [Scen(<<Dup(a, tt), [Dup(a, tt) EXCEPT !.wshift = 1]>>, "VerifyOnly", NoSkew, FALSE) EXCEPT !.samecommit = TRUE] :
                   a \in {a \in Base : a.t = 2 /\ (a.seed = 0 \/ a.m = 1)}, tt \in {2, 3, 6} }
  IN UNION { { Scen(<<a, b>>, "VerifyOnly", NoSkew, FALSE) : b \in {b \in Vary(a) : (b.seed = 0 \/ b.m = 1) /\ \A j \in 1..b.m : U64Le(PVal(b.proms[j]), b.vals[j])} } :
             a \in {a \in Base : a.seed = 0 \/ a.m = 1} } \cup SameC

(***************************************************************************************************)
(* bind (C04, C08): an accepted triple and the same triple with exactly one datum perturbed          *)
(***************************************************************************************************)
FamBind ==
  LET BB == IF Quick THEN { <<2, 1, 1, 1, 0>>, <<4, 2, 2, 2, 0>>, <<2, 3, 4, 4, 0>>, <<4, 6, 1, 2, 1>> }
            ELSE { <<n, t, mc[1], mc[2], 0>> : n \in {2, 4}, t \in {1, 2, 3, 6}, mc \in {<<1,1>>, <<2,2>>, <<4,4>>, <<1,2>>} }
      Pair(mb, first, wdiff) == ScenP(<<mb>>, "VerifyOnly", NoSkew, FALSE, <<>>, TRUE, first, wdiff)
      K(b) == Log2(b[1] * b[3])
      PointMut(b) == { <<[kind |-> "point", slot |-> sl, j |-> 0, how |-> h], IF sl = "A" THEN 1 ELSE K(b) + 3>> : sl \in {"A", "A1", "B"}, h \in {"rand", "other"} }
                \cup { <<[kind |-> "point", slot |-> sl, j |-> jj, how |-> h], 3 + jj>> : sl \in {"L", "R"}, jj \in 0..(K(b)-1), h \in {"rand", "other"} }
      ScalMut(b) == { [kind |-> "scalar", slot |-> sl, j |-> 0, how |-> h] : sl \in {"r1", "s1"}, h \in {"rand", "plus1"} }
               \cup { [kind |-> "scalar", slot |-> "d1", j |-> kk, how |-> h] : kk \in 0..(b[2]-1), h \in {"rand", "plus1"} }
      VFirst(mb) ==
           { <<[mb.v EXCEPT !.label = 1 - mb.label], 1>>, <<[mb.v EXCEPT !.label = 2], 1>>, <<[mb.v EXCEPT !.pgH = 1], 1>> }
        \cup { <<[mb.v EXCEPT !.pgG = kk], 1>> : kk \in 1..mb.t }
        \cup { <<[mb.v EXCEPT !.commit = "rand", !.cj = j], 1>> : j \in 1..mb.m }
        \cup { <<[mb.v EXCEPT !.proms[j] = Prom(pc, mb.vals[j], mb.n)], IF PVal(Prom(pc, mb.vals[j], mb.n)) = PVal(mb.proms[j]) THEN 0 ELSE 1>> : j \in 1..mb.m, pc \in {"none", "zero", "eq", "max"} }
        \cup { <<[mb.v EXCEPT !.n = nn], 1>> : nn \in {2, 4, 8} \ {mb.n} }
        \cup { <<[mb.v EXCEPT !.cap = cc], 0>> : cc \in {c \in {1, 2, 4, 8} : c >= mb.m} }
  IN UNION { { Pair([BaseMember(b) EXCEPT !.mut = pm[1]], pm[2], FALSE) : pm \in PointMut(b) }
             \cup { Pair([BaseMember(b) EXCEPT !.mut = sm], 0, TRUE) : sm \in ScalMut(b) }
             \cup { Pair([BaseMember(b) EXCEPT !.v = vf[1]], vf[2], FALSE) : vf \in VFirst(BaseMember(b)) } : b \in BB }
     \* a statement that already holds a run of equal commitments ([A, B, C, C]); one commitment is replaced by a copy of its left
     \* neighbour ([A, B, B, C], [A, A, C, C]): the statement changed, so every challenge changes
     \cup LET mbq == [Member(4, 1, 4, 4, "mid", "mid", 0, "none", "none", 0, 0, 0, "chacha") EXCEPT !.eqb = 4] IN
          { Pair([mbq EXCEPT !.v = [mbq.v EXCEPT !.commit = "copy", !.cj = j]], 1, FALSE) : j \in {2, 3} }
     \* a long statement (bits*aggregation = 1024) accepted first and then presented again with one datum perturbed
     \cup LET mb == BaseMember(<<64, 1, 16, 16, 0>>) IN
          { Pair([mb EXCEPT !.v = vf[1]], vf[2], FALSE) :
              vf \in { <<[mb.v EXCEPT !.label = 1], 1>>, <<[mb.v EXCEPT !.pgH = 1], 1>>, <<[mb.v EXCEPT !.commit = "rand", !.cj = 5], 1>>, <<[mb.v EXCEPT !.proms[2] = U64One], 1>> } }

(***************************************************************************************************)
(* roundtrip (C15): prover outputs of the configuration lattice passed through to_bytes / from_bytes  *)
(***************************************************************************************************)
FamRoundtrip ==
  { [One(Plain(n, t, mc[1], mc[2], IF mc[1] = 1 /\ t % 2 = 0 THEN 1 ELSE 0), "RecoverAndVerify") EXCEPT !.viabytes = TRUE] :
      n \in AllN, t \in 1..6, mc \in (IF Quick THEN {<<1,1>>, <<2,2>>, <<4,8>>, <<8,8>>} ELSE MCap(16, 16)) }

(***************************************************************************************************)
(* hostile (C16): proof shapes that do not fit the statement, in every mode                           *)
(***************************************************************************************************)
FamHostile ==
  LET HB == { <<2, 1, 1, 1, 1>>, <<8, 2, 2, 4, 0>>, <<64, 6, 1, 1, 1>>, <<64, 1, 8, 8, 0>> }
      HM(b) == { [kind |-> "rounds", slot |-> "none", j |-> d, how |-> "none"] :
                    d \in {-2, -1, 1, 2, 3, 5, 25, 26, 30, 31, 32, 57, 58, 59, 60, 61, 62, 63, 64, 65, 130, 199} }
          \cup { [kind |-> "tag", slot |-> "none", j |-> tt, how |-> "none"] : tt \in ((0..8) \cup {128, 255}) \ {b[2]} }
          \cup { [kind |-> "point", slot |-> sl, j |-> 0, how |-> h] : sl \in {"A", "A1", "B"}, h \in {"identity", "undecodable"} }
          \cup { [kind |-> "point", slot |-> sl, j |-> jj, how |-> h] : sl \in {"L", "R"}, jj \in {0, Log2(b[1] * b[3]) - 1}, h \in {"identity", "undecodable"} }
          \cup { [kind |-> "bytes", slot |-> "none", j |-> 0, how |-> h] : h \in {"trailing1", "trailing32", "truncate1", "truncate32"} }
  IN UNION { { One([BaseMember(b) EXCEPT !.mut = mu], mode) : mu \in HM(b), mode \in Modes } : b \in HB }

(***************************************************************************************************)
(* forge (C02, C07, C19): proofs made by the independent prover, which has no witness guards.         *)
(* In range: interoperability (accepted, masks recovered).  Out of range / below the promise: the     *)
(* relation is false, rejected.  Value >= 2^n with a promise that brings value - promise back into    *)
(* range: accepted iff the promise itself fits the bit length (C07).                                  *)
(***************************************************************************************************)
FamForge ==
  { One([Member(n, t, m, m, "mid", vs, js, "none", ps, js, IF m = 1 THEN sd ELSE 0, 0, "chacha") EXCEPT !.wit = [kind |-> "forge", j |-> 0]], mode) :
      n \in (IF Quick THEN {2, 8} ELSE {2, 8, 32}), t \in {1, 2}, m \in {1, 2}, js \in {1, 2},
      vs \in {"zero", "mid", "max", "over", "b63", "umax"}, ps \in {"none", "zero", "lt", "eq", "gt", "max", "over", "umax"},
      sd \in {0, 1}, mode \in {"VerifyOnly", "RecoverAndVerify"} }
  \* the same proofs as members of a batch, at either end (with a filler, so the batch can be expanded to full chunks)
  \cup { ScenF(IF pos = 1 THEN <<fm>> \o rest ELSE rest \o <<fm>>, "VerifyOnly", NoSkew, FALSE, <<Kind(8, 1, "v1")>>) :
          fm \in { [Member(8, 1, 1, 1, "mid", vs, 1, "none", ps, 1, 0, 0, "chacha") EXCEPT !.wit = [kind |-> "forge", j |-> 0]] :
                     vs \in {"mid", "over"}, ps \in {"none", "lt", "over", "umax"} },
          \* ... and next to LARGER (aggregated) members, before or after them: every member's promises are judged, not only
          \* those of the members that are at least as large as their predecessors
          rest \in { <<Kind(8, 1, "v1")>>, <<Kind(8, 1, "v1"), Kind(8, 1, "v1s")>>, <<Kind(8, 1, "v2")>>,
                     <<Kind(8, 1, "v2"), Kind(8, 1, "v1")>>, <<Kind(8, 1, "v1"), Kind(8, 1, "v2")>> }, pos \in {1, 2} }

(***************************************************************************************************)
(* long (C03, C09, C10): batches of 21-40 members (many model chunks) mixing aggregated members,      *)
(* members seeded with either seed on either side, and plain ones, in all three modes                  *)
(***************************************************************************************************)
LongPat(p, x, k) ==
  CASE p = 1 -> (IF x % 7 = 3 THEN "v2" ELSE IF x % 5 = 0 THEN "v1s" ELSE IF x % 5 = 2 THEN "v1t" ELSE IF x % 11 = 6 THEN "v1st" ELSE "v1")
    [] p = 2 -> (IF x = k - 1 THEN "v4c8" ELSE IF x % 3 = 1 THEN "v1s" ELSE IF x % 4 = 2 THEN "v1ts" ELSE "v1")
    [] p = 3 -> (IF x % 2 = 0 THEN "v2" ELSE "v1s")
FamLong ==
  { ScenF([x \in 1..k |-> Kind(nt[1], nt[2], LongPat(p, x, k))], mode, NoSkew, FALSE, <<Kind(nt[1], nt[2], "v1")>>) :
      k \in {21, 26, 33, 40}, p \in {1, 2, 3}, nt \in {<<4, 1>>, <<2, 2>>}, mode \in Modes }
  \* many SEEDED members at the highest extension degree (the nonces re-derived for recovery grow with members x rounds x degree)
  \cup { ScenF([x \in 1..k |-> Kind(8, 6, IF x % 2 = 0 THEN "v1s" ELSE "v1t")], mode, NoSkew, FALSE, <<Kind(8, 6, "v1")>>) : k \in {80, 140}, mode \in Modes }

Scenarios ==
  CASE Family = "complete" -> FamComplete
    [] Family = "long"     -> FamLong
    [] Family = "forge"    -> FamForge
    [] Family = "hostile"  -> FamHostile
    [] Family = "roundtrip" -> FamRoundtrip
    [] Family = "bind"     -> FamBind
    [] Family = "hedge"    -> FamHedge
    [] Family = "witness"  -> FamWitness
    [] Family = "alter"    -> FamAlter
    [] Family = "promise"  -> FamPromise
    [] Family = "batch"    -> FamBatch
    [] Family = "recover"  -> FamRecover
    [] Family = "capacity" -> FamCapacity

VARIABLES pc, sc, i, proofs, res, masks, chunk
INSTANCE BPPApi

\* one line per terminal behaviour: the scenario and what the specification predicts
Emit == Done => PrintT(<<"REPLAY", ToJson([family |-> Family, sc |-> sc, expect |-> Expect, distinct |-> ExpectDistinct])>>)
====
