---- MODULE MC_Constructors ----
(***************************************************************************************************)
(* C17: the constructors' guards as coded, over their whole (finite) documented input spaces.        *)
(* Each state is one constructor call; `Guard*` is the code's guard sequence, `Doc*` the documented  *)
(* domain; the invariant says they coincide; every state is printed with the predicted outcome and   *)
(* getter values and executed on the real constructors by the harness (exhaustive).                  *)
(***************************************************************************************************)
EXTENDS Integers, Sequences, FiniteSets, TLC, Json
CONSTANTS Tier
Quick == Tier = "quick"
RECURSIVE L2(_)
L2(x) == IF x <= 1 THEN 0 ELSE 1 + L2(x \div 2)
RECURSIVE P2(_)
P2(k) == IF k = 0 THEN 1 ELSE 2 * P2(k-1)
IsPow2(x) == x >= 1 /\ P2(L2(x)) = x           \* usize::is_power_of_two: false for 0

\* ---- RangeParameters::init(bit_length, capacity) ------------------------------------------------------
GuardParams(n, cap) == IF ~IsPow2(cap) THEN "err" ELSE IF ~IsPow2(n) THEN "err" ELSE IF n > 64 THEN "err" ELSE "ok"
DocParams(n, cap) == n \in {1, 2, 4, 8, 16, 32, 64} /\ IsPow2(cap)
\* ---- RangeStatement::init(#commitments, #promises, seed?, capacity) ------------------------------------
GuardStmt(m, np, seed, cap) == IF ~IsPow2(m) THEN "err" ELSE IF np # m THEN "err" ELSE IF cap < m THEN "err"
                               ELSE IF seed /\ m > 1 THEN "err" ELSE "ok"
DocStmt(m, np, seed, cap) == IsPow2(m) /\ m <= cap /\ np = m /\ (seed => m = 1)
\* ---- RangeWitness::init(blinding counts of the openings) -----------------------------------------------
RECURSIVE AllEq(_,_,_)
AllEq(cs, i, c) == IF i > Len(cs) THEN "ok" ELSE IF cs[i] = 0 THEN "err" ELSE IF cs[i] # c THEN "err" ELSE AllEq(cs, i+1, c)
GuardWit(cs) == IF Len(cs) = 0 THEN "err" ELSE IF cs[1] = 0 THEN "err"
                ELSE IF AllEq(cs, 2, cs[1]) = "err" THEN "err" ELSE IF cs[1] \notin 1..6 THEN "err" ELSE "ok"
DocWit(cs) == Len(cs) >= 1 /\ \A i \in 1..Len(cs) : cs[i] = cs[1] /\ cs[1] \in 1..6
\* ---- ExtendedMask::assign(degree, #blindings) ; PedersenGens::commit(#blindings) with degree t ----------
GuardMask(t, len) == IF len = 0 \/ len # t THEN "err" ELSE "ok"
GuardCommit(t, b) == IF b = 0 \/ b > t THEN "err" ELSE "ok"
\* ---- ExtensionDegree::try_from(u8 / usize) ---------------------------------------------------------------
GuardDeg(v) == IF v \in 1..6 THEN "ok" ELSE "err"

Big == {65536, 65537, 16777216}       \* plus 2^32 - 1, 2^32, 2^32 + 1 and usize::MAX, added by name (TLC integers are 32-bit)
Wide == {255, 256, 257, 258, 262, 263, 512, 513, 65536, 65537, 65542}
WideMix == {1, 2, 6} \cup {256, 257, 258, 262, 65537}
Cases ==
     { [op |-> "params", n |-> n, cap |-> cap, expect |-> GuardParams(n, cap)] : n \in 0..130, cap \in 0..(IF Quick THEN 40 ELSE 130) }
  \cup { [op |-> "params", n |-> n, cap |-> cap, expect |-> GuardParams(n, cap)] : n \in {1, 8, 64, 65, 128}, cap \in {64, 128, 129} }
  \* (sval: the VALUE of the seed - 0 an ordinary scalar, 1 the zero scalar, 2 the largest canonical scalar; the domain is structural,
  \*  so the value must not matter)
  \cup { [op |-> "stmt", m |-> m, np |-> np, seed |-> sd, sval |-> sv, cap |-> cap, expect |-> GuardStmt(m, np, sd, cap)] :
           m \in 0..17, np \in 0..18, sd \in BOOLEAN, sv \in 0..2, cap \in {1, 2, 4, 8, 16, 32} }
  \* arguments near the machine-word limit, by name (TLC integers are 32-bit): the guards refuse them - they do not multiply first
  \cup { [op |-> "params_named", nname |-> nn, cname |-> cc, expect |-> "err"] :
           nn \in {"usizemax", "two63", "two32", "u32max"}, cc \in {"1", "2", "two32", "usizemax", "two63_plus1"} }
  \cup { [op |-> "params_named", nname |-> nn, cname |-> cc, expect |-> "err"] :
           nn \in {"64", "1", "3"}, cc \in {"usizemax", "two63_plus1", "aaab", "u32max"} }
  \cup { [op |-> "stmt_verify", m |-> mm, np |-> np, cap |-> cap, expect |-> IF GuardStmt(mm, np, FALSE, cap) = "ok" THEN "ok" ELSE "err"] :
           mm \in {1, 2, 4}, np \in 0..7, cap \in {4, 8} }
  \cup { [op |-> "wit", counts |-> cs, expect |-> GuardWit(cs)] : cs \in UNION { [1..k -> 0..8] : k \in 0..(IF Quick THEN 3 ELSE 4) } }
  \cup { [op |-> "mask", t |-> t, len |-> len, expect |-> GuardMask(t, len)] : t \in 1..6, len \in 0..8 }
  \cup { [op |-> "commit", t |-> t, b |-> b, expect |-> GuardCommit(t, b)] : t \in 1..6, b \in 0..8 }
  \* the VALUES of the factors do not matter: `zt` trailing factors are zero, `hv`: every factor is one of the largest scalars (l - 1 - i)
  \cup { [op |-> "commit_values", t |-> t, b |-> b, zt |-> zt, hv |-> hv, expect |-> GuardCommit(t, b)] : t \in 1..6, b \in 1..8, zt \in 0..3, hv \in BOOLEAN }
  \cup { [op |-> "mask_values", t |-> t, len |-> len, zt |-> zt, hv |-> hv, expect |-> GuardMask(t, len)] : t \in 1..6, len \in 1..8, zt \in 0..2, hv \in BOOLEAN }
  \* a generator record edited after construction so that it holds more blinding bases than its declared degree: the bound stays the degree
  \cup { [op |-> "commit_edited", t |-> t, extra |-> x, b |-> b, expect |-> GuardCommit(t, b)] : t \in 1..5, x \in 1..2, b \in 0..8 }
  \cup { [op |-> "deg_u8", v |-> v, expect |-> GuardDeg(v)] : v \in 0..255 }
  \cup { [op |-> "deg_usize", v |-> v, expect |-> GuardDeg(v)] : v \in (0..300) \cup Big }
  \cup { [op |-> "deg_usize_named", name |-> nm, expect |-> "err"] : nm \in {"u32max", "u32max_plus1", "u32max_plus2", "usizemax"} }
  \cup { [op |-> "rlen", b |-> b, expect |-> IF b = 0 THEN "err" ELSE "ok"] : b \in (0..8) \cup Wide }
  \* counts that alias a small count when narrowed to 8 or 16 bits (256 + k, 65536 + k): a length is a machine word, never a byte
  \cup { [op |-> "wit", counts |-> cs, expect |-> GuardWit(cs)] : cs \in UNION { [1..k -> WideMix] : k \in 1..2 } }
  \cup { [op |-> "mask", t |-> t, len |-> len, expect |-> GuardMask(t, len)] : t \in 1..6, len \in Wide }
  \cup { [op |-> "params", n |-> n, cap |-> cap, expect |-> GuardParams(n, cap)] : n \in {1, 2}, cap \in {255, 256, 257, 258, 260, 264, 512, 513, 1024} }
  \cup { [op |-> "stmt", m |-> m, np |-> np, seed |-> sd, sval |-> 0, cap |-> 256, expect |-> GuardStmt(m, np, sd, 256)] :
           m \in {255, 256, 257, 258, 260}, np \in {1, 2, 4, 255, 256, 257, 258, 260}, sd \in BOOLEAN }
  \cup { [op |-> "commit", t |-> t, b |-> b, expect |-> GuardCommit(t, b)] : t \in 1..6, b \in Wide }

VARIABLES c, pc
Init == pc = "pick" /\ c = [op |-> "none"]
Next == \/ pc = "pick" /\ pc' = "done" /\ c' \in {x \in Cases : (x.op = "stmt" => (x.seed \/ x.sval = 0)) /\ (x.op = "commit_values" => x.zt <= x.b) /\ (x.op = "mask_values" => x.zt <= x.len)}
        \/ pc = "done" /\ UNCHANGED <<c, pc>>
Spec == Init /\ [][Next]_<<c, pc>>

\* the guards as coded accept exactly the documented domain
Documented == pc = "done" =>
   /\ c.op = "params" => ((c.expect = "ok") <=> DocParams(c.n, c.cap))
   /\ c.op = "stmt"   => ((c.expect = "ok") <=> DocStmt(c.m, c.np, c.seed, c.cap))
   /\ c.op = "wit"    => ((c.expect = "ok") <=> DocWit(c.counts))
   /\ c.op = "mask"   => ((c.expect = "ok") <=> (c.len = c.t))
   /\ c.op = "commit" => ((c.expect = "ok") <=> (c.b \in 1..c.t))
Emit == pc = "done" => PrintT(<<"REPLAY", ToJson(c)>>)
====
