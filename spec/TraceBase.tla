---- MODULE TraceBase ----
(***************************************************************************************************)
(* Common part of the trace specifications: the recorded execution, the position variable and the   *)
(* merlin-level machine (Transcript.tla gives the expected content): per transcript the sequence of *)
(* operations seen so far and the set of absorbed data tokens; per transcript-RNG what it was built *)
(* from (transcript, absorbed set at build time, rekey data, external bytes) and what it produced.  *)
(* One action per recorded event kind; every action consumes exactly one event.                     *)
(***************************************************************************************************)
EXTENDS Integers, Sequences, FiniteSets, TLC, Json, IOUtils

Rec == ndJsonDeserialize(IOEnv.TRACE)
NRec == Len(Rec)

VARIABLES l,        \* position in Rec of the next event to consume
          scripts,  \* tid -> sequence of operations [op, label, len, tok, u64, str]
          abs,      \* tid -> set of data tokens absorbed so far
          chal,     \* tid -> sequence of challenges drawn [label, pos, tok, absAt]; pos = position of the event in Rec (its 64 bytes as
                    \* limbs and the claimed inverse stay in the constant Rec: they are not copied into every state)
          rng       \* rid -> [tid, absAt, nops, rekey, ext, fills]
tvars == <<scripts, abs, chal, rng>>

Ext(f, x, v) == [y \in (DOMAIN f) \cup {x} |-> IF y = x THEN v ELSE f[y]]
Is(name) == l <= NRec /\ Rec[l].ev = name
Emp == [x \in {} |-> 0]

TInit == /\ scripts = Emp /\ abs = Emp /\ chal = Emp /\ rng = Emp
TReset == /\ scripts' = Emp /\ abs' = Emp /\ chal' = Emp /\ rng' = Emp

TNewEv == /\ Is("TNew")
          /\ LET e == Rec[l] IN
             /\ scripts' = Ext(scripts, e.tid, <<>>) /\ abs' = Ext(abs, e.tid, {}) /\ chal' = Ext(chal, e.tid, <<>>)
          /\ UNCHANGED rng /\ l' = l + 1
TCloneEv == /\ Is("TClone")
            /\ LET e == Rec[l] IN
               /\ e.from \in DOMAIN scripts
               /\ scripts' = Ext(scripts, e.tid, scripts[e.from]) /\ abs' = Ext(abs, e.tid, abs[e.from])
               /\ chal' = Ext(chal, e.tid, chal[e.from])
            /\ UNCHANGED rng /\ l' = l + 1
TAppendEv == /\ Is("TAppend")
             /\ LET e == Rec[l] IN
                /\ e.tid \in DOMAIN scripts
                /\ scripts' = [scripts EXCEPT ![e.tid] = Append(@, [op |-> "A", label |-> e.label, len |-> e.len, tok |-> e.tok, u64 |-> e.u64, str |-> e.str])]
                /\ abs' = [abs EXCEPT ![e.tid] = @ \cup {e.tok}]
             /\ UNCHANGED <<chal, rng>> /\ l' = l + 1
TChalEv == /\ Is("TChal")
           /\ LET e == Rec[l] IN
              /\ e.tid \in DOMAIN scripts
              /\ scripts' = [scripts EXCEPT ![e.tid] = Append(@, [op |-> "C", label |-> e.label, len |-> e.len, tok |-> e.tok, u64 |-> <<>>, str |-> ""])]
              /\ chal' = [chal EXCEPT ![e.tid] = Append(@, [label |-> e.label, pos |-> l, tok |-> e.tok, absAt |-> abs[e.tid]])]
           /\ UNCHANGED <<abs, rng>> /\ l' = l + 1
RBuildEv == /\ Is("RBuild")
            /\ LET e == Rec[l] IN
               /\ e.tid \in DOMAIN scripts
               /\ rng' = Ext(rng, e.rid, [tid |-> e.tid, absAt |-> abs[e.tid], nops |-> Len(scripts[e.tid]), rekey |-> <<>>, ext |-> <<>>, fills |-> <<>>])
            /\ UNCHANGED <<scripts, abs, chal>> /\ l' = l + 1
RRekeyEv == /\ Is("RRekey")
            /\ LET e == Rec[l] IN
               /\ e.rid \in DOMAIN rng /\ rng[e.rid].ext = <<>>
               /\ rng' = [rng EXCEPT ![e.rid].rekey = Append(@, [label |-> e.label, len |-> e.len, tok |-> e.tok])]
            /\ UNCHANGED <<scripts, abs, chal>> /\ l' = l + 1
RFinalEv == /\ Is("RFinal")
            /\ LET e == Rec[l] IN
               /\ e.rid \in DOMAIN rng /\ rng[e.rid].ext = <<>>
               /\ rng' = [rng EXCEPT ![e.rid].ext = <<[tok |-> e.tok, zero |-> e.zero]>>]
            /\ UNCHANGED <<scripts, abs, chal>> /\ l' = l + 1
\* a generator only produces output after it was finalised with external bytes
RFillEv == /\ Is("RFill")
           /\ LET e == Rec[l] IN
              /\ e.rid \in DOMAIN rng /\ rng[e.rid].ext # <<>>
              /\ rng' = [rng EXCEPT ![e.rid].fills = Append(@, [len |-> e.len, tok |-> e.tok, u64 |-> e.u64, pos |-> l])]
           /\ UNCHANGED <<scripts, abs, chal>> /\ l' = l + 1
TNext == TNewEv \/ TCloneEv \/ TAppendEv \/ TChalEv \/ RBuildEv \/ RRekeyEv \/ RFinalEv \/ RFillEv
====
