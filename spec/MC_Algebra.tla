---- MODULE MC_Algebra ----
(***************************************************************************************************)
(* Exhaustive checking of the polynomial identities over a small prime field GF(P) (DESIGN §4.3):  *)
(*  T0  the step-function reference used by trace validation (BPVSteps, product form)               *)
(*      == the published recursive zk-WIP verifier with generator folding (BPV!RefForm)             *)
(*  T1  the code-shaped verifier (BPV!ImplForm: batched inverses, s recurrence, d by doubling,      *)
(*      d_sum squaring trick, geometric y_sum) == weight * published relation, on every symbol      *)
(*  T2  published relation vanishes on the code-shaped prover's output (completeness)               *)
(*  T3  mask recovery as coded returns the blinding vector                                          *)
(* State = (challenges, responses/promises/witness choice); Init enumerates (y, z), Next the rest.  *)
(***************************************************************************************************)
EXTENDS Integers, Sequences, FiniteSets, TLC
CONSTANTS P, N, M, T, Bug, Mode      \* Mode: "verifier" (T0, T1) or "prover" (T2, T3)
SAdd(a,b) == (a+b) % P
SSub(a,b) == (a-b+P) % P
SMul(a,b) == (a*b) % P
InvTab == [a \in 1..(P-1) |-> CHOOSE x \in 1..(P-1) : (a*x) % P = 1]
Inv(a) == InvTab[a]
RECURSIVE P2m(_)
P2m(b) == IF b = 0 THEN 1 % P ELSE (2 * P2m(b-1)) % P
PP == INSTANCE BPP WITH FAdd <- SAdd, FSub <- SSub, FMul <- SMul, FZero <- 0, FOne <- 1, FTwo <- (2 % P)
V == INSTANCE BPV WITH FAdd <- SAdd, FSub <- SSub, FMul <- SMul, FZero <- 0, FOne <- 1, FTwo <- (2 % P)
S == INSTANCE BPVSteps WITH FAdd <- SAdd, FSub <- SSub, FMul <- SMul, FZero <- 0, FOne <- 1, FTwoPow <- P2m
K == V!Log2(N*M)
NM == N*M
VARIABLES ph, c, rsp, w, prom, bits, sd
vars == <<ph, c, rsp, w, prom, bits, sd>>
NZ == 1..(P-1)
Init == /\ ph = 0 /\ rsp = 0 /\ w = 0 /\ prom = 0 /\ bits = 0 /\ sd = 0
        /\ \E y \in NZ \ {1}, z \in NZ : c = <<y, z>>
Chal(e, es) == [y |-> c[1], z |-> c[2], e |-> e, es |-> es, yinv |-> Inv(c[1]), y1inv |-> Inv(SSub(c[1],1)), esinv |-> [j \in 1..K |-> Inv(es[j])]]
Proms == {[j \in 1..M |-> 0], [j \in 1..M |-> j % P], [j \in 1..M |-> IF j = M THEN P - 1 ELSE 0]}
NextV == /\ Mode = "verifier" /\ ph = 0 /\ ph' = 1
         /\ \E e \in NZ, es \in [1..K -> NZ] : c' = Chal(e, es)
         /\ rsp' \in [r1 : {1, 3}, s1 : {2, P - 1}, d1 : [1..T -> {3, 0}]]
         /\ w' \in {2, P - 1}
         /\ prom' \in Proms
         /\ UNCHANGED <<bits, sd>>
\* fixed but non-degenerate nonce / blinding assignments driven by sd
Nc(s) == [alpha |-> [k \in 1..T |-> (1 + s + k) % P], dL |-> [j \in 1..K |-> [k \in 1..T |-> (2 + s*j + 3*k) % P]],
          dR |-> [j \in 1..K |-> [k \in 1..T |-> (5 + s + 2*j + k) % P]], rr |-> (3 + s) % P, ss |-> (4 + 2*s) % P,
          dd |-> [k \in 1..T |-> (6 + s*k) % P], eta |-> [k \in 1..T |-> (1 + 3*s + k) % P]]
Rb(s) == [j \in 1..M |-> [k \in 1..T |-> (2 + s + 2*j + 5*k) % P]]
NextP == /\ Mode = "prover" /\ ph = 0 /\ ph' = 1
         /\ \E e \in NZ, es \in [1..K -> NZ] : c' = Chal(e, es)
         /\ bits' \in [1..M -> [1..N -> {0,1}]]
         /\ prom' \in {[j \in 1..M |-> 0], [j \in 1..M |-> j % P]}
         /\ sd' \in {0, 3}
         /\ UNCHANGED <<rsp, w>>
Next == NextV \/ NextP
Spec == Init /\ [][Next]_vars

\* ---- the step-function reference evaluated as one expression ---------------------------------------
CX == [y |-> c.y, yinv |-> c.yinv, z |-> c.z, e |-> c.e, es |-> c.es, esinv |-> c.esinv, k |-> K, m |-> M]
RECURSIVE Tabs(_,_)
Tabs(tb, r) == IF r > S!NSteps(NM, M) THEN tb ELSE Tabs(S!TabStep(tb, CX, r), r + 1)
StepRef ==
  LET tb == Tabs(S!Tab0(CX), 1)
      d == S!DTab(tb, N, NM)
      sc == S!Scal(tb, d, CX, rsp, NM)
  IN [s \in V!Syms(N, M, T, K) |->
        CASE s[1] = "H"  -> S!RefH(tb, sc, CX, rsp, prom, M)
          [] s[1] = "G"  -> S!RefG(rsp, s[2]+1)
          [] s[1] = "Gi" -> S!RefGi(tb, sc, s[2])
          [] s[1] = "Hi" -> S!RefHi(tb, d, sc, CX, NM, s[2])
          [] s[1] = "A"  -> S!RefA(sc)
          [] s[1] = "A1" -> S!RefA1(CX)
          [] s[1] = "B"  -> S!RefB
          [] s[1] = "L"  -> S!RefL(sc, CX, s[2]+1)
          [] s[1] = "R"  -> S!RefR(sc, CX, s[2]+1)
          [] s[1] = "V"  -> S!RefV(tb, sc, s[2]+1)]

T0 == (ph = 1 /\ Mode = "verifier") => StepRef = V!RefForm(N, M, T, prom, rsp, c)
T1 == (ph = 1 /\ Mode = "verifier") =>
        V!ImplForm(N, M, T, prom, rsp, c, w) = [s \in V!Syms(N, M, T, K) |-> SMul(w, V!RefForm(N, M, T, prom, rsp, c)[s])]
Pr == PP!Prove(N, M, T, bits, prom, Rb(sd), Nc(sd), c)
T2 == (ph = 1 /\ Mode = "prover") => PP!Residual(N, M, T, prom, Pr, c) = PP!PZero(PP!GenSyms(N, M, T))
T3 == (ph = 1 /\ Mode = "prover" /\ M = 1) =>
        PP!Recover(N, T, Pr, Nc(sd), c, Inv(SMul(SMul(c.z, c.z), V!FPow(c.y, N*M + 1))), Inv(SMul(c.e, c.e))) = Rb(sd)[1]
====
