---- MODULE MC_Transcript ----
(***************************************************************************************************)
(* The Fiat-Shamir / synthetic-randomness discipline of the protocol in a term model (random-oracle *)
(* idealisation: hash outputs are uninterpreted injective terms).  DESIGN §4.3.                     *)
(*                                                                                                 *)
(* A run of the prover is computed symbolically: the transcript is the sequence of absorbed terms;  *)
(* a challenge is the term <<"chal", label, transcript so far>>; the RNG is rebuilt after every      *)
(* absorption group as <<"rng", transcript so far, witness (rekey), external 32 bytes>> and a nonce  *)
(* is <<"nonce", rng, draw index>>; prover messages are terms over the witness and the nonces.      *)
(* Two runs are compared whose inputs are identical or differ in exactly one component `diff`,      *)
(* under every fault model of the external RNG.                                                     *)
(*                                                                                                 *)
(* Invariants: Binding (C04) every challenge contains every datum absorbed before it, and two runs  *)
(* differing in d have different challenges from the first one after d on; Hedged (C14) runs that   *)
(* differ in any input - the witness alone included - share no nonce, identical runs reproduce;     *)
(* Fresh (C13) nonces of one run are pairwise distinct; SeesAll (C13/C14) every nonce comes *)
(* from a generator that saw the transcript up to the moment of the draw; WeightBound (C08) the verifier's weight     *)
(* seed contains r1, s1 and every d1.                                                               *)
(* Constants Rekey / Rebuild / Omit select seeded defects for the negative configurations.          *)
(***************************************************************************************************)
EXTENDS Integers, Sequences, FiniteSets, TLC
CONSTANTS Rekey,      \* TRUE: RNG rekeyed with the serialised witness
          Rebuild,    \* TRUE: RNG rebuilt after every absorption group
          Omit,       \* label of an absorption that is skipped ("none" as released)
          KRounds, TDeg, MAgg

Diffs == {"none", "ctx", "H", "G", "N", "T", "M", "C", "p", "witness", "ext"}
ExtModels == {"fresh", "zero", "const", "period2", "replay"}

VARIABLES diff, extm
vars == <<diff, extm>>
Init == diff \in Diffs /\ extm \in ExtModels
Next == UNCHANGED vars
Spec == Init /\ [][Next]_vars

\* inputs of run r (1 or 2): run 2 differs from run 1 exactly in `diff`
In(r, what) == IF r = 2 /\ diff = what THEN <<what, "'">> ELSE <<what, "">>
\* i-th 32-byte block the external RNG returns in run r
Ext(r, i) == CASE extm = "fresh"   -> <<"ext", r, i>>
               [] extm = "zero"    -> <<"ext", 0, 0>>
               [] extm = "const"   -> <<"ext", 0, 1>>
               [] extm = "period2" -> <<"ext", 0, i % 2>>
               [] extm = "replay"  -> IF diff = "ext" THEN <<"ext", r, i>> ELSE <<"ext", 0, i>>

Absorb(tr, label, datum) == IF label = Omit THEN tr ELSE Append(tr, <<label, datum>>)
RECURSIVE AbsorbAll(_,_,_,_)
AbsorbAll(tr, label, f, i) == IF i > Len(f) THEN tr ELSE AbsorbAll(Absorb(tr, label, f[i]), label, f, i+1)

Rng(r, tr, i) == <<"rng", tr, IF Rekey THEN In(r, "witness") ELSE <<"nowitness", "">>, Ext(r, i)>>
Nonce(g, i) == <<"nonce", g, i>>
Chal(tr, label) == <<"chal", label, tr>>

\* the symbolic prover; returns [tr, chals, nonces, rngs]
Prefix(r) ==
  LET t0 == <<<<"dom-sep", In(r, "ctx")>>, <<"dom-sep", "Bulletproofs+ Range Proof">>>>
      t1 == Absorb(t0, "H", In(r, "H"))
      t2 == AbsorbAll(t1, "G", [k \in 1..TDeg |-> <<In(r, "G"), k>>], 1)
      t3 == Absorb(Absorb(Absorb(t2, "N", In(r, "N")), "T", In(r, "T")), "M", In(r, "M"))
      t4 == AbsorbAll(t3, "Ci", [j \in 1..MAgg |-> <<In(r, "C"), j>>], 1)
  IN AbsorbAll(t4, "vi - minimum_value", [j \in 1..MAgg |-> <<In(r, "p"), j>>], 1)

RECURSIVE RoundsP(_,_,_,_)
\* st = [tr, g (current rng), gi (index of next external block), chals, nonces]
RoundsP(r, st, j, w) ==
  IF j > KRounds THEN st
  ELSE LET dl == [k \in 1..TDeg |-> Nonce(st.g, st.ctr + k)]
           dr == [k \in 1..TDeg |-> Nonce(st.g, st.ctr + TDeg + k)]
           L == <<"L", j, w, dl, st.chals>>
           R == <<"R", j, w, dr, st.chals>>
           tr2 == Absorb(Absorb(st.tr, "L", L), "R", R)
           g2 == IF Rebuild THEN Rng(r, tr2, st.gi) ELSE st.g
       IN RoundsP(r, [tr |-> tr2, g |-> g2, gi |-> st.gi + 1, chals |-> Append(st.chals, Chal(tr2, "e")),
                      nonces |-> st.nonces \cup {dl[k] : k \in 1..TDeg} \cup {dr[k] : k \in 1..TDeg},
                      drawn |-> st.drawn \cup {<<dl[k], st.tr>> : k \in 1..TDeg} \cup {<<dr[k], st.tr>> : k \in 1..TDeg},
                      ctr |-> IF Rebuild THEN 0 ELSE st.ctr + 2 * TDeg], j + 1, w)

Prove(r) ==
  LET w == In(r, "witness")
      t0 == Prefix(r)
      g0 == Rng(r, t0, 0)
      alpha == [k \in 1..TDeg |-> Nonce(g0, k)]
      A == <<"A", w, alpha>>
      t1 == Absorb(t0, "A", A)
      g1 == IF Rebuild THEN Rng(r, t1, 1) ELSE g0
      c0 == <<Chal(t1, "y"), Chal(t1, "z")>>
      s1 == RoundsP(r, [tr |-> t1, g |-> g1, gi |-> 2, chals |-> c0, nonces |-> {alpha[k] : k \in 1..TDeg},
                        drawn |-> {<<alpha[k], t0>> : k \in 1..TDeg}, ctr |-> IF Rebuild THEN 0 ELSE TDeg], 1, w)
      fin == [k \in 1..(2 + 2 * TDeg) |-> Nonce(s1.g, s1.ctr + k)]
      A1 == <<"A1", w, fin, s1.chals>>
      B == <<"B", fin>>
      t2 == Absorb(Absorb(s1.tr, "A1", A1), "B", B)
      e == Chal(t2, "e")
      r1 == <<"r1", w, fin, e>>
      t3 == AbsorbAll(Absorb(Absorb(t2, "r1", r1), "s1", <<"s1", w, fin, e>>), "d1", [k \in 1..TDeg |-> <<"d1", k, w, fin, e>>], 1)
  IN [tr |-> t2, chals |-> Append(s1.chals, e), nonces |-> s1.nonces \cup {fin[k] : k \in 1..(2 + 2 * TDeg)},
      nn |-> TDeg + 2 * TDeg * KRounds + 2 + 2 * TDeg,
      drawn |-> s1.drawn \cup {<<fin[k], s1.tr>> : k \in 1..(2 + 2 * TDeg)},
      wseed |-> <<"rng", t3, <<"nowitness", "">>, <<"ext", 0, 0>>>>, vtr |-> t3]

P1 == Prove(1)
P2 == Prove(2)

\* index (1-based) of the first challenge drawn after the datum named d is absorbed; 0: d is not a transcript datum
FirstAfter(d) == IF d \in {"ctx", "H", "G", "N", "T", "M", "C", "p"} THEN 1 ELSE 0
RECURSIVE Mentions(_,_)
\* does term x contain the tuple d anywhere
Mentions(x, d) == IF x = d THEN TRUE
                  ELSE IF x \in Int \/ x \in STRING THEN FALSE
                  ELSE \E i \in DOMAIN x : Mentions(x[i], d)

Binding ==
  /\ diff \in {"ctx", "H", "G", "N", "T", "M", "C", "p"} =>
        \A i \in 1..Len(P1.chals) : P1.chals[i] # P2.chals[i]
  /\ (diff = "none" /\ extm # "fresh") => P1.chals = P2.chals
Hedged ==
  /\ (diff \notin {"none", "ext"}) => P1.nonces \cap P2.nonces = {}
  /\ (diff = "none" /\ extm # "fresh") => P1.nonces = P2.nonces
  /\ (diff = "ext" /\ extm = "replay") => P1.nonces \cap P2.nonces = {}
Fresh == Cardinality(P1.nonces) = P1.nn
\* every nonce is an output of a generator that saw the whole transcript up to the moment of the draw
SeesAll == \A d \in P1.drawn : d[1][2][2] = d[2]
WeightBound == P1.vtr # P1.tr /\ Len(P1.vtr) = Len(P1.tr) + 2 + TDeg
====
