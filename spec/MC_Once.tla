---- MODULE MC_Once ----
(***************************************************************************************************)
(* C18 / C11: the two lazily initialised statics of the Ristretto instantiation (the array of        *)
(* blinding-generator points P, and the array C of their encodings, computed FROM P) used by N        *)
(* threads.  once_cell semantics: the first caller becomes the initialiser (atomically), others block *)
(* until it is done.  All interleavings; invariants: each cell initialised at most once, a reader     *)
(* only ever sees the complete value, nobody is stuck; liveness: every caller returns.                *)
(* `Atomic = FALSE` is the seeded defect (check-then-act initialisation) for the negative config.     *)
(***************************************************************************************************)
EXTENDS Integers, Sequences, FiniteSets, TLC
CONSTANTS Threads, Atomic
Cells == {"P", "C"}
VARIABLES cell, pc, want, got, inits
vars == <<cell, pc, want, got, inits>>
\* cell[c] \in {"uninit"} \cup [running: owner] \cup {"done"}
Init == /\ cell = [c \in Cells |-> [st |-> "uninit", owner |-> "none"]]
        /\ pc = [t \in Threads |-> "idle"] /\ want \in [Threads -> Cells] /\ got = [t \in Threads |-> <<>>]
        /\ inits = [c \in Cells |-> 0]
Val(c) == IF c = "P" THEN "points" ELSE "compress(points)"
\* thread t asks for want[t]
Start(t) == /\ pc[t] = "idle" /\ pc' = [pc EXCEPT ![t] = "get_" \o want[t]] /\ UNCHANGED <<cell, want, got, inits>>
Get(t, c) == /\ pc[t] = "get_" \o c
             /\ \/ /\ cell[c].st = "done" /\ pc' = [pc EXCEPT ![t] = IF c = "P" /\ want[t] = "C" /\ cell["C"].owner = t /\ cell["C"].st = "running" THEN "fin_C" ELSE "ret"]
                   /\ got' = [got EXCEPT ![t] = Append(@, Val(c))] /\ UNCHANGED <<cell, inits>>
                \/ /\ cell[c].st = "uninit" /\ Atomic /\ cell' = [cell EXCEPT ![c] = [st |-> "running", owner |-> t]]
                   /\ inits' = [inits EXCEPT ![c] = @ + 1]
                   /\ pc' = [pc EXCEPT ![t] = IF c = "C" THEN "get_P" ELSE "fin_P"] /\ UNCHANGED got
                \* seeded defect: the emptiness test and the claim are two steps
                \/ /\ cell[c].st = "uninit" /\ ~Atomic /\ pc' = [pc EXCEPT ![t] = "claim_" \o c] /\ UNCHANGED <<cell, inits, got>>
                \* running by someone else: blocked (no step)
             /\ UNCHANGED want
Claim(t, c) == /\ pc[t] = "claim_" \o c
               /\ cell' = [cell EXCEPT ![c] = [st |-> "running", owner |-> t]]
               /\ inits' = [inits EXCEPT ![c] = @ + 1]
               /\ pc' = [pc EXCEPT ![t] = IF c = "C" THEN "get_P" ELSE "fin_P"] /\ UNCHANGED <<got, want>>
Fin(t, c) == /\ pc[t] = "fin_" \o c /\ cell[c].st = "running" /\ cell[c].owner = t
             /\ cell' = [cell EXCEPT ![c] = [st |-> "done", owner |-> t]]
             /\ pc' = [pc EXCEPT ![t] = IF c = "P" /\ want[t] = "C" THEN "fin_C" ELSE "ret"]
             /\ got' = [got EXCEPT ![t] = IF c = want[t] THEN Append(@, Val(c)) ELSE @]
             /\ UNCHANGED <<want, inits>>
Next == \E t \in Threads : Start(t) \/ Get(t, "P") \/ Get(t, "C") \/ Fin(t, "P") \/ Fin(t, "C") \/ Claim(t, "P") \/ Claim(t, "C")
Done == \A t \in Threads : pc[t] = "ret"
Spec == Init /\ [][Next]_vars /\ WF_vars(Next)
SingleInit == \A c \in Cells : inits[c] <= 1
SeesFull == \A t \in Threads : pc[t] = "ret" => (Len(got[t]) >= 1 /\ got[t][Len(got[t])] = Val(want[t]))
NoStuck == (~Done) => ENABLED Next
Terminates == <>Done
====
