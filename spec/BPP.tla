---- MODULE BPP ----
(* Prototype: code-shaped prover as step functions over a free module on generator symbols *)
EXTENDS Integers, Sequences, FiniteSets, TLC
CONSTANTS FAdd(_,_), FSub(_,_), FMul(_,_), FZero, FOne, FTwo, Bug
V == INSTANCE BPV
FNeg(a) == FSub(FZero, a)

GenSyms(n, m, t) == {<<"H">>} \cup {<<"G", i>> : i \in 0..(t-1)} \cup {<<"Gi", i>> : i \in 0..(n*m-1)} \cup {<<"Hi", i>> : i \in 0..(n*m-1)}
PZero(S) == TLCEval([s \in S |-> FZero])
Unit(S, u) == TLCEval([s \in S |-> IF s = u THEN FOne ELSE FZero])
PAdd(p, q) == TLCEval([s \in DOMAIN p |-> FAdd(p[s], q[s])])
PScale(c, p) == TLCEval([s \in DOMAIN p |-> FMul(c, p[s])])
RECURSIVE MSM(_,_,_,_)      \* sum_{i=lo..hi} sc[i] * pts[i]   (sequences 1-based)
MSM(sc, pts, i, acc) == IF i > Len(sc) THEN acc ELSE MSM(sc, pts, i+1, PAdd(acc, PScale(sc[i], pts[i])))
RECURSIVE Dot3(_,_,_,_,_)   \* sum a[i]*w[i]*b[i]
Dot3(a, w, b, i, acc) == IF i > Len(a) THEN acc ELSE Dot3(a, w, b, i+1, FAdd(acc, FMul(FMul(a[i], w[i]), b[i])))

\* witness: bits[j] : sequence of n values in {0,1} (bits of v_j - p_j), rb[j] : sequence of t blindings
\* nonces: alpha[k], dL[j][k], dR[j][k], rr, ss, dd[k], eta[k]
Prove(n, m, t, bits, prom, rb, nc, c) ==
  LET nm == n*m   k == V!Log2(nm)   S == GenSyms(n, m, t)
      y == c.y  z == c.z  z2 == FMul(z, z)
      ypow == TLCEval([i \in 0..(nm+1) |-> V!FPow(y, i)])
      Gk == [i \in 1..t |-> Unit(S, <<"G", i-1>>)]
      aL0 == TLCEval([i \in 1..nm |-> IF bits[((i-1) \div n) + 1][((i-1) % n) + 1] = 1 THEN FOne ELSE FZero])
      aR0 == TLCEval([i \in 1..nm |-> FSub(aL0[i], FOne)])
      A == PAdd(MSM(nc.alpha, Gk, 1, PZero(S)),
                PAdd(MSM(aL0, [i \in 1..nm |-> Unit(S, <<"Gi", i-1>>)], 1, PZero(S)), MSM(aR0, [i \in 1..nm |-> Unit(S, <<"Hi", i-1>>)], 1, PZero(S))))
      d == TLCEval([i \in 1..nm |-> V!DRef(z, n, i-1)])
      aL1 == TLCEval([i \in 1..nm |-> FSub(aL0[i], z)])
      aR1 == TLCEval([i \in 1..nm |-> FAdd(aR0[i], FAdd(FMul(d[i], ypow[nm - (i-1)]), z))])
      al1 == TLCEval([kk \in 1..t |-> FAdd(nc.alpha[kk], V!SumTo([j \in 1..m |-> FMul(FMul(V!FPow(z2, j), rb[j][kk]), ypow[nm+1])], 1, m))])
      st0 == [a |-> aL1, b |-> aR1, gs |-> [i \in 1..nm |-> Unit(S, <<"Gi", i-1>>)], hs |-> [i \in 1..nm |-> Unit(S, <<"Hi", i-1>>)], al |-> al1, Ls |-> <<>>, Rs |-> <<>>]
      Round(st, j) ==
        LET nn == Len(st.a) \div 2
            e == c.es[j]  ei == c.esinv[j]
            yn == ypow[nn]  yni == V!FPow(c.yinv, nn)
            alo == SubSeq(st.a, 1, nn)  ahi == SubSeq(st.a, nn+1, 2*nn)
            blo == SubSeq(st.b, 1, nn)  bhi == SubSeq(st.b, nn+1, 2*nn)
            glo == SubSeq(st.gs, 1, nn) ghi == SubSeq(st.gs, nn+1, 2*nn)
            hlo == SubSeq(st.hs, 1, nn) hhi == SubSeq(st.hs, nn+1, 2*nn)
            alooff == TLCEval([i \in 1..nn |-> FMul(alo[i], yni)])
            ahioff == TLCEval([i \in 1..nn |-> FMul(ahi[i], yn)])
            cL == Dot3(alo, [i \in 1..nn |-> ypow[i]], bhi, 1, FZero)
            cR == Dot3(ahi, [i \in 1..nn |-> ypow[nn + i]], blo, 1, FZero)
            L == PAdd(PScale(cL, Unit(S, <<"H">>)), PAdd(MSM(nc.dL[j], Gk, 1, PZero(S)), PAdd(MSM(alooff, ghi, 1, PZero(S)), MSM(bhi, hlo, 1, PZero(S)))))
            R == PAdd(PScale(cR, Unit(S, <<"H">>)), PAdd(MSM(nc.dR[j], Gk, 1, PZero(S)), PAdd(MSM(ahioff, glo, 1, PZero(S)), MSM(blo, hhi, 1, PZero(S)))))
            e2 == FMul(e, e)  ei2 == FMul(ei, ei)  eyni == FMul(e, yni)
        IN [a  |-> TLCEval([i \in 1..nn |-> FAdd(FMul(alo[i], e), FMul(ahioff[i], ei))]),
            b  |-> TLCEval([i \in 1..nn |-> FAdd(FMul(blo[i], ei), FMul(bhi[i], e))]),
            gs |-> TLCEval([i \in 1..nn |-> PAdd(PScale(ei, glo[i]), PScale(eyni, ghi[i]))]),
            hs |-> TLCEval([i \in 1..nn |-> PAdd(PScale(e, hlo[i]), PScale(ei, hhi[i]))]),
            al |-> TLCEval([kk \in 1..t |-> FAdd(st.al[kk], FAdd(FMul(nc.dL[j][kk], e2), FMul(nc.dR[j][kk], ei2)))]),
            Ls |-> Append(st.Ls, L), Rs |-> Append(st.Rs, R)]
      RECURSIVE Rounds(_,_)
      Rounds(st, j) == IF j > k THEN st ELSE Rounds(Round(st, j), j+1)
      fin == Rounds(st0, 1)
      a == fin.a[1]  b == fin.b[1]
      hco == FAdd(FMul(FMul(nc.rr, ypow[1]), b), FMul(FMul(nc.ss, ypow[1]), a))
      A1 == PAdd(PAdd(PScale(nc.rr, fin.gs[1]), PScale(nc.ss, fin.hs[1])), PAdd(PScale(hco, Unit(S, <<"H">>)), MSM(nc.dd, Gk, 1, PZero(S))))
      Bp == PAdd(PScale(FMul(FMul(nc.rr, ypow[1]), nc.ss), Unit(S, <<"H">>)), MSM(nc.eta, Gk, 1, PZero(S)))
      e == c.e  e2 == FMul(e, e)
      \* commitments: value = (v_j - p_j) + p_j
      vv == [j \in 1..m |-> FAdd(V!SumTo([i \in 1..n |-> IF bits[j][i] = 1 THEN V!FPow(FTwo, i-1) ELSE FZero], 1, n), prom[j])]
      Vs == [j \in 1..m |-> PAdd(PScale(vv[j], Unit(S, <<"H">>)), MSM(rb[j], Gk, 1, PZero(S)))]
  IN [A |-> A, A1 |-> A1, B |-> Bp, Ls |-> fin.Ls, Rs |-> fin.Rs, Vs |-> Vs,
      r1 |-> FAdd(nc.rr, FMul(a, e)), s1 |-> FAdd(nc.ss, FMul(b, e)),
      d1 |-> [kk \in 1..t |-> FAdd(nc.eta[kk], FAdd(FMul(nc.dd[kk], e), FMul(fin.al[kk], e2)))]]

\* Residual of the published relation on generator symbols, substituting the proof's points
Residual(n, m, t, prom, pr, c) ==
  LET k == V!Log2(n*m)  S == GenSyms(n, m, t)
      ref == V!RefForm(n, m, t, prom, [r1 |-> pr.r1, s1 |-> pr.s1, d1 |-> pr.d1], c)
      gen == [s \in S |-> ref[s]]
      pts == <<pr.A, pr.A1, pr.B>> \o pr.Ls \o pr.Rs \o pr.Vs
      scs == <<ref[<<"A">>], ref[<<"A1">>], ref[<<"B">>]>> \o [j \in 1..k |-> ref[<<"L", j-1>>]] \o [j \in 1..k |-> ref[<<"R", j-1>>]] \o [j \in 1..m |-> ref[<<"V", j-1>>]]
  IN MSM(scs, pts, 1, gen)

\* mask recovery as coded (aggregation 1)
Recover(n, t, pr, nc, c, zyinv, e2inv) ==
  LET k == V!Log2(n) IN
  [kk \in 1..t |->
     LET a0 == FMul(FSub(FSub(pr.d1[kk], nc.eta[kk]), FMul(c.e, nc.dd[kk])), e2inv)
         a1 == FSub(a0, nc.alpha[kk])
         a2 == FSub(a1, V!SumTo([j \in 1..k |-> FAdd(FMul(FMul(c.es[j], c.es[j]), nc.dL[j][kk]), FMul(FMul(c.esinv[j], c.esinv[j]), nc.dR[j][kk]))], 1, k))
     IN FMul(a2, zyinv)]
====
