---- MODULE BPVSteps ----
(***************************************************************************************************)
(* The published Bulletproofs+ verification relation as *step functions* written for TLC's         *)
(* evaluation model (DESIGN §4.2): every aggregate lives in a state variable of the caller, each   *)
(* step builds its result coordinate-wise reading only its arguments (which the caller passes as   *)
(* state variables), recursion runs over indices only.                                             *)
(*                                                                                                 *)
(* Folded generator coefficients are in product form  s_i = prod_j e_j^{+-1},  y^{-i};  equality    *)
(* with the recursive generator folding of the paper (BPV!RefForm) is theorem T0 of MC_Algebra.     *)
(*                                                                                                 *)
(* Sequences are 1-based: yp[i+1] = y^i, yip[i+1] = y^-i, s[i+1] = s_i, d[i+1] = d_i, z2p[j] = z^2j.*)
(***************************************************************************************************)
EXTENDS Integers, Sequences
CONSTANTS FAdd(_,_), FSub(_,_), FMul(_,_), FZero, FOne, FTwoPow(_)   \* FTwoPow(b) = 2^b in the field, 0 <= b < 64

FNeg(a) == FSub(FZero, a)
RECURSIVE L2(_)
L2(x) == IF x <= 1 THEN 0 ELSE 1 + L2(x \div 2)

\* number of doubling steps needed for the power tables of a proof with nm = n*m and k = log2(nm), m parties
NSteps(nm, m) == LET a == L2(nm) + (IF nm >= 2 THEN 1 ELSE 2)  b == L2(m) + 1 IN IF a > b THEN a ELSE b

\* ---- tables, by doubling -------------------------------------------------------------------------
\* tb = [yp, yL, yip, yiL, s, z2p, z2L]; c = challenges record [y, yinv, z, es, esinv, k, m]
Tab0(c) == [yp |-> <<FOne>>, yL |-> c.y, yip |-> <<FOne>>, yiL |-> c.yinv, s |-> <<FOne>>,
            z2p |-> <<FMul(c.z, c.z)>>, z2L |-> FMul(c.z, c.z)]
\* step r = 1, 2, ...: power tables double; the s table takes round k+1-r as its new most significant bit
TabStep(tb, c, r) ==
  LET L == Len(tb.yp)  S == Len(tb.s)  Z == Len(tb.z2p)  j == c.k + 1 - r IN
  [yp  |-> [i \in 1..(2*L) |-> IF i <= L THEN tb.yp[i] ELSE FMul(tb.yp[i-L], tb.yL)],
   yL  |-> FMul(tb.yL, tb.yL),
   yip |-> [i \in 1..(2*L) |-> IF i <= L THEN tb.yip[i] ELSE FMul(tb.yip[i-L], tb.yiL)],
   yiL |-> FMul(tb.yiL, tb.yiL),
   s   |-> IF j >= 1 THEN [i \in 1..(2*S) |-> IF i <= S THEN FMul(tb.s[i], c.esinv[j]) ELSE FMul(tb.s[i-S], c.es[j])] ELSE tb.s,
   z2p |-> IF Z < c.m THEN [i \in 1..(2*Z) |-> IF i <= Z THEN tb.z2p[i] ELSE FMul(tb.z2p[i-Z], tb.z2L)] ELSE tb.z2p,
   z2L |-> IF Z < c.m THEN FMul(tb.z2L, tb.z2L) ELSE tb.z2L]

\* ---- d vector and the two sums ------------------------------------------------------------------
RECURSIVE SumSeq(_,_,_)
SumSeq(q, lo, hi) == IF lo > hi THEN FZero ELSE FAdd(q[lo], SumSeq(q, lo+1, hi))
DTab(tb, n, nm) == [i \in 1..nm |-> FMul(tb.z2p[((i-1) \div n) + 1], FTwoPow((i-1) % n))]
\* scalars shared by many coordinates, computed once: sc = [e2, r1e, s1e, e2z, ynm1, ysum, dsum, z2, zeta]
Scal(tb, d, c, rsp, nm) ==
  LET e2 == FMul(c.e, c.e)  ynm1 == tb.yp[nm+2]  z2 == FMul(c.z, c.z)
      ysum == SumSeq(tb.yp, 2, nm+1)  dsum == SumSeq(d, 1, nm) IN
  [e2 |-> e2, r1e |-> FMul(rsp.r1, c.e), s1e |-> FMul(rsp.s1, c.e), e2z |-> FMul(e2, c.z), ynm1 |-> ynm1,
   ysum |-> ysum, dsum |-> dsum, z2 |-> z2,
   zeta |-> FSub(FSub(FMul(c.z, ysum), FMul(FMul(c.z, ynm1), dsum)), FMul(z2, ysum))]

\* ---- reference coefficients of one proof (residual RHS - LHS of the final check) ----------------
RefGi(tb, sc, x) == FAdd(FMul(FMul(sc.r1e, tb.yip[x+1]), tb.s[x+1]), sc.e2z)
RefHi(tb, d, sc, c, nm, x) == FSub(FMul(sc.s1e, tb.s[nm-x]), FMul(sc.e2, FAdd(FMul(d[x+1], tb.yp[nm-x+1]), c.z)))
VCo(tb, sc, j) == FMul(tb.z2p[j], sc.ynm1)
RECURSIVE PromSum(_,_,_,_,_)
PromSum(tb, sc, prom, j, m) == IF j > m THEN FZero ELSE FAdd(FMul(VCo(tb, sc, j), prom[j]), PromSum(tb, sc, prom, j+1, m))
RefH(tb, sc, c, rsp, prom, m) == FSub(FMul(FMul(rsp.r1, c.y), rsp.s1), FMul(sc.e2, FSub(sc.zeta, PromSum(tb, sc, prom, 1, m))))
RefG(rsp, kk) == rsp.d1[kk]
RefA(sc)  == FNeg(sc.e2)
RefA1(c)  == FNeg(c.e)
RefB      == FNeg(FOne)
RefL(sc, c, j) == FNeg(FMul(sc.e2, FMul(c.es[j], c.es[j])))
RefR(sc, c, j) == FNeg(FMul(sc.e2, FMul(c.esinv[j], c.esinv[j])))
RefV(tb, sc, j) == FNeg(FMul(sc.e2, VCo(tb, sc, j)))
====
