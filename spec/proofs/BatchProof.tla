---- MODULE BatchProof ----
(***************************************************************************************************)
(* C03, unbounded: the orchestration of verify_batch (shape guard, whole-batch consistency, chunk    *)
(* loop) for EVERY batch size k, EVERY chunk size mb >= 1 and every validity / class assignment,     *)
(* proved with TLAPS.  Same actions as BatchUnbounded (which Apalache checks for sizes up to 10) and  *)
(* as the batch part of BPPApi (which TLC checks with MaxBatch = 2 and the harness replays at 256).   *)
(***************************************************************************************************)
EXTENDS Integers, TLAPS
VARIABLES pc, k, mb, np, nt, valid, cls, done, res
vars == <<pc, k, mb, np, nt, valid, cls, done, res>>

Init == /\ pc = "start" /\ done = 0 /\ res = "none"
        /\ k \in Nat /\ mb \in Nat \ {0} /\ np \in Nat /\ nt \in Nat
        /\ valid \in [Nat -> BOOLEAN] /\ cls \in [Nat -> Nat]

Consistent(lo, hi) == \A x \in Nat : (lo <= x /\ x <= hi) => cls[x] = cls[lo]
AllValid(lo, hi) == \A x \in Nat : (lo <= x /\ x <= hi) => valid[x]
Min(a, b) == IF a < b THEN a ELSE b

Check == /\ pc = "start"
         /\ IF k = 0 \/ np = 0 \/ nt = 0 \/ k # np \/ nt # k \/ ~Consistent(1, k)
            THEN pc' = "done" /\ res' = "Err" ELSE pc' = "chunk" /\ res' = res
         /\ UNCHANGED <<k, mb, np, nt, valid, cls, done>>
Chunk == /\ pc = "chunk"
         /\ LET lo == done + 1  hi == Min(k, done + mb) IN
            IF ~Consistent(lo, hi) \/ ~AllValid(lo, hi)
            THEN pc' = "done" /\ res' = "Err" /\ done' = done
            ELSE /\ done' = hi
                 /\ IF hi < k THEN pc' = "chunk" /\ res' = res ELSE pc' = "done" /\ res' = "Ok"
         /\ UNCHANGED <<k, mb, np, nt, valid, cls>>
Next == Check \/ Chunk
Spec == Init /\ [][Next]_vars

WellShaped == k >= 1 /\ np = k /\ nt = k
C03 == pc = "done" =>
   /\ (WellShaped /\ Consistent(1, k)) => ((res = "Ok") <=> AllValid(1, k))
   /\ (~WellShaped \/ ~Consistent(1, k)) => res = "Err"
   /\ res = "Ok" => done = k

TypeOK == /\ pc \in {"start", "chunk", "done"} /\ k \in Nat /\ mb \in Nat \ {0} /\ np \in Nat /\ nt \in Nat
          /\ valid \in [Nat -> BOOLEAN] /\ cls \in [Nat -> Nat] /\ done \in Nat
          /\ res \in {"none", "Ok", "Err"}

Inv == /\ TypeOK
       /\ pc = "start" => done = 0 /\ res = "none"
       /\ pc = "chunk" => /\ WellShaped /\ Consistent(1, k) /\ done < k /\ AllValid(1, done) /\ res = "none"
       /\ C03

THEOREM Safety == Spec => []C03
<1>1. Init => Inv
  BY DEF Init, Inv, TypeOK, C03, WellShaped
<1>2. Inv /\ [Next]_vars => Inv'
  <2> SUFFICES ASSUME Inv, [Next]_vars PROVE Inv'
    OBVIOUS
  <2>1. CASE Check
    <3>1. CASE k = 0 \/ np = 0 \/ nt = 0 \/ k # np \/ nt # k \/ ~Consistent(1, k)
      <4>1. pc' = "done" /\ res' = "Err" /\ UNCHANGED <<k, mb, np, nt, valid, cls, done>>
        BY <2>1, <3>1 DEF Check
      <4>2. ~WellShaped \/ ~Consistent(1, k)
        BY <3>1 DEF WellShaped, Inv, TypeOK
      <4> QED BY <4>1, <4>2 DEF Inv, TypeOK, C03, WellShaped, Consistent, AllValid
    <3>2. CASE ~(k = 0 \/ np = 0 \/ nt = 0 \/ k # np \/ nt # k \/ ~Consistent(1, k))
      <4>1. pc' = "chunk" /\ res' = res /\ UNCHANGED <<k, mb, np, nt, valid, cls, done>>
        BY <2>1, <3>2 DEF Check
      <4>2. pc = "start" /\ done = 0 /\ res = "none"
        BY <2>1 DEF Check, Inv
      <4>3. WellShaped /\ Consistent(1, k) /\ 0 < k
        BY <3>2 DEF WellShaped, Inv, TypeOK
      <4>4. AllValid(1, 0)
        BY DEF AllValid
      <4> QED BY <4>1, <4>2, <4>3, <4>4 DEF Inv, TypeOK, C03, WellShaped, Consistent, AllValid
    <3> QED BY <3>1, <3>2
  <2>2. CASE Chunk
    <3> DEFINE lo == done + 1
    <3> DEFINE hi == Min(k, done + mb)
    <3>0. pc = "chunk" /\ WellShaped /\ Consistent(1, k) /\ done < k /\ AllValid(1, done) /\ res = "none" /\ TypeOK
      BY <2>2 DEF Chunk, Inv
    <3>h. hi \in Nat /\ done < hi /\ hi <= k /\ lo >= 1
      BY <3>0 DEF Min, TypeOK
    <3>1. CASE ~Consistent(lo, hi) \/ ~AllValid(lo, hi)
      <4>1. pc' = "done" /\ res' = "Err" /\ done' = done /\ UNCHANGED <<k, mb, np, nt, valid, cls>>
        BY <2>2, <3>1 DEF Chunk
      <4>2. Consistent(lo, hi)
        BY <3>0, <3>h DEF Consistent, TypeOK
      <4>3. ~AllValid(lo, hi)
        BY <3>1, <4>2
      <4>4. ~AllValid(1, k)
        BY <4>3, <3>h, <3>0 DEF AllValid, TypeOK
      <4> QED BY <4>1, <4>4, <3>0 DEF Inv, TypeOK, C03, WellShaped, Consistent, AllValid
    <3>2. CASE ~(~Consistent(lo, hi) \/ ~AllValid(lo, hi))
      <4>1. done' = hi /\ UNCHANGED <<k, mb, np, nt, valid, cls>>
        BY <2>2, <3>2 DEF Chunk
      <4>2. AllValid(1, hi)
        BY <3>0, <3>2, <3>h DEF AllValid, TypeOK
      <4>3. CASE hi < k
        <5>1. pc' = "chunk" /\ res' = res
          BY <2>2, <3>2, <4>3 DEF Chunk
        <5> QED BY <5>1, <4>1, <4>2, <4>3, <3>0, <3>h DEF Inv, TypeOK, C03, WellShaped, Consistent, AllValid
      <4>4. CASE ~(hi < k)
        <5>1. pc' = "done" /\ res' = "Ok"
          BY <2>2, <3>2, <4>4 DEF Chunk
        <5>2. hi = k
          BY <4>4, <3>h, <3>0 DEF TypeOK
        <5> QED BY <5>1, <5>2, <4>1, <4>2, <3>0 DEF Inv, TypeOK, C03, WellShaped, Consistent, AllValid
      <4> QED BY <4>3, <4>4
    <3> QED BY <3>1, <3>2
  <2>3. CASE UNCHANGED vars
    BY <2>3 DEF Inv, TypeOK, C03, WellShaped, Consistent, AllValid, vars
  <2> QED BY <2>1, <2>2, <2>3 DEF Next
<1>3. Inv => C03
  BY DEF Inv
<1> QED BY <1>1, <1>2, <1>3, PTL DEF Spec
====
