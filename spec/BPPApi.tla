---- MODULE BPPApi ----
(***************************************************************************************************)
(* The library read as an API-level state machine (DESIGN §2, §4.1).                               *)
(*                                                                                                 *)
(* A *scenario* is a batch of members; each member is (prover-side statement and witness, an       *)
(* optional alteration of the encoded proof, the verifier-side statement).  The machine runs the   *)
(* scenario through the public API in the order a caller would: prove every member                 *)
(* (`PGuard*`, the prover's guard sequence in code order), pass the proof through its byte         *)
(* encoding with the alteration (`Codec`-level outcome), then `verify_batch` shaped like the       *)
(* code: input-shape guard, whole-batch consistency, the chunk loop over `MaxBatch`, per chunk the *)
(* consistency pass, the per-proof transcript pass (identity points refused), the per-proof        *)
(* structural pass (decompression, |L| = |R|, 2^k = n*m), mask recovery, the final equation.       *)
(*                                                                                                 *)
(* Cryptography is abstract here: a proof carries `bound`, the record of everything the prover     *)
(* absorbed into Fiat-Shamir and committed to; the final equation of a member holds iff the proof  *)
(* is intact and `bound` equals what the verifier absorbs.  That abstraction is justified by the   *)
(* algebra modules (BPPlus: verifier == published relation, verifier o prover = accept) and the    *)
(* transcript module, and is bound to the code by replaying every behaviour on the real library.   *)
(*                                                                                                 *)
(* The properties C01 C03 C05 C06 C07 C09 C10 C12 (and the totality part of C16) are invariants    *)
(* over the terminal state.                                                                        *)
(***************************************************************************************************)
EXTENDS Integers, Sequences, FiniteSets, TLC, ApiBase

CONSTANTS
  MaxBatch,               \* the code's MAX_RANGE_PROOF_BATCH_SIZE (256), small in the model
  LoopAllChunks,          \* TRUE: verify_batch iterates over all chunks (repaired); FALSE: first chunk only (as pinned)
  WholeBatchConsistency,  \* TRUE: consistency is checked over the whole batch before chunking (repaired)
  Scenarios               \* the set of scenarios this configuration explores (defined by the MC module)


(***************************************************************************************************)
(* Scenario members.                                                                               *)
(*   n, t, m, cap   prover-side parameter set            vals, proms  committed values / promises  *)
(*   seed           0 = none, 1, 2 = two distinct seeds   label        transcript context class     *)
(*   wit            [kind, j]: how the witness handed to the prover deviates from the openings     *)
(*   mut            [kind, slot, j, how]: alteration of the encoded proof                          *)
(*   v              verifier-side statement: [n, cap, m, proms, seed, label, pgH, pgG, commit, cj] *)
(***************************************************************************************************)
SameV(mb) == [n |-> mb.n, t |-> mb.t, cap |-> mb.cap, proms |-> mb.proms, seed |-> mb.seed, label |-> mb.label,
              pgH |-> 0, pgG |-> mb.ppg, commit |-> "same", cj |-> 0]

\* ---- prover ------------------------------------------------------------------------------------
\* ideal reading of C06: the witness relation
WitnessValid(mb) ==
  /\ mb.wit.kind = "ok"
  /\ \A j \in 1..mb.m : /\ U64Fits(mb.vals[j], mb.n)
                        /\ U64Le(PVal(mb.proms[j]), mb.vals[j])

\* the prover's guards, in code order; result is the name of the first guard that fires
PGuard(mb) ==
  IF mb.wit.kind = "forge" THEN "ok"          \* the independent prover has no guards: it proves whatever it is given
  ELSE IF mb.wit.kind \in {"fewer", "more"} THEN "count"
  ELSE IF mb.wit.kind = "degree" THEN "degree"
  ELSE IF \E j \in 1..mb.m : ~(mb.n >= 64) /\ ~U64Lt(mb.vals[j], U64Pow2(mb.n)) THEN "range"
  ELSE IF mb.wit.kind \in {"blind", "value", "swap", "shift", "ragmore", "ragnone"} THEN "opening"
  ELSE IF \E j \in 1..mb.m : mb.proms[j] # None /\ ~U64CheckedSubOk(mb.vals[j], mb.proms[j]) THEN "promise"
  ELSE "ok"

\* what the prover binds the proof to
Bound(n, t, m, label, pgH, pgG, commit, cj, proms) ==
  [n |-> n, t |-> t, m |-> m, label |-> label, pgH |-> pgH, pgG |-> pgG, commit |-> commit, cj |-> cj,
   proms |-> [j \in 1..Len(proms) |-> PVal(proms[j])]]

Prove(mb) ==
  IF PGuard(mb) # "ok" THEN [ok |-> FALSE]
  ELSE [ok |-> TRUE, bound |-> Bound(mb.n, mb.t, mb.m, mb.label, 0, mb.ppg, "same", 0, mb.proms),
        k |-> Log2(mb.n * mb.m), tag |-> mb.t, seed |-> mb.seed,
        \* a proof made without guards satisfies the relation exactly when value - promise is an n-bit number
        intact |-> (mb.wit.kind # "forge" \/ \A j \in 1..mb.m : U64Le(PVal(mb.proms[j]), mb.vals[j]) /\ U64Fits(U64Sub(mb.vals[j], PVal(mb.proms[j])), mb.n)),
        idpoint |-> FALSE, undec |-> FALSE]

\* ---- encoding, alteration, decoding ------------------------------------------------------------
\* elements after the tag byte: t + 5 + 2k ; the decoder needs k >= 1 (DESIGN §7: the n*m = 1 finding)
Decodable(tag, nelem) == tag \in 1..6 /\ nelem >= tag + 5 + 2 /\ (nelem - tag - 5) % 2 = 0

\* outcome of  from_bytes(alter(to_bytes(proof)))  : ErrP or the decoded abstract proof
ErrP == [ok |-> FALSE]
Alter(p, mu) ==
  LET nelem == p.tag + 5 + 2 * p.k IN
  CASE mu.kind = "none"   -> IF Decodable(p.tag, nelem) THEN p ELSE ErrP
    [] mu.kind = "scalar" -> IF mu.how = "noncanon" THEN ErrP ELSE [p EXCEPT !.intact = FALSE]
    [] mu.kind = "point"  -> IF mu.how = "identity" THEN [p EXCEPT !.intact = FALSE, !.idpoint = TRUE]
                             ELSE IF mu.how = "undecodable" THEN [p EXCEPT !.intact = FALSE, !.undec = TRUE]
                             ELSE [p EXCEPT !.intact = FALSE]
    [] mu.kind = "rounds" -> IF Decodable(p.tag, nelem + 2 * mu.j)
                             THEN [p EXCEPT !.intact = FALSE, !.k = p.k + mu.j] ELSE ErrP
    [] mu.kind = "tag"    -> IF Decodable(mu.j, nelem)
                             THEN [p EXCEPT !.intact = FALSE, !.tag = mu.j, !.k = (nelem - mu.j - 5) \div 2] ELSE ErrP
    [] mu.kind = "bytes"  -> ErrP      \* trailing / missing bytes, an odd extra element: never decodable

\* 2^k = n*m as the code checks it (a hostile round count may exceed any integer width: checked_shl)
RoundsMatch(k, nm) == k <= 20 /\ Pow2(k) = nm
\* ---- one member, ideally (C01, C05, C07, C12) --------------------------------------------------
VBound(mb) == Bound(mb.v.n, mb.v.t, mb.m, mb.v.label, mb.v.pgH, mb.v.pgG, mb.v.commit, mb.v.cj, mb.v.proms)
PromsFit(mb) == \A j \in 1..mb.m : mb.v.proms[j] = None \/ U64Fits(mb.v.proms[j], mb.v.n)
MemberValid(mb, p) ==
  /\ p # ErrP /\ p.intact /\ p.tag = mb.v.t /\ RoundsMatch(p.k, mb.v.n * mb.m)
  /\ p.bound = VBound(mb) /\ PromsFit(mb) /\ mb.v.cap >= mb.m

(***************************************************************************************************)
(* The machine                                                                                     *)
(***************************************************************************************************)
VARIABLES pc, sc, i, proofs, res, masks, chunk
vars == <<pc, sc, i, proofs, res, masks, chunk>>

K == Len(sc.members)
Mb(x) == sc.members[x]

Init == /\ pc = "pick" /\ sc = [members |-> <<>>] /\ i = 1 /\ proofs = <<>> /\ res = "none" /\ masks = <<>> /\ chunk = 0

Pick == /\ pc = "pick"
        /\ \E s \in Scenarios : sc' = s
        /\ pc' = "prove" /\ UNCHANGED <<i, proofs, res, masks, chunk>>

\* prove_with_rng for member i; a refused proof ends the scenario (nothing to verify)
DoProve == /\ pc = "prove"
           /\ IF i > K THEN pc' = "alter" /\ i' = 1 /\ UNCHANGED <<proofs, res>>
              ELSE LET p == Prove(Mb(i)) IN
                   IF p.ok THEN proofs' = Append(proofs, p) /\ i' = i + 1 /\ pc' = "prove" /\ UNCHANGED res
                   ELSE pc' = "done" /\ res' = "prove_err" /\ UNCHANGED <<i, proofs>>
           /\ UNCHANGED <<sc, masks, chunk>>

\* to_bytes, alteration, from_bytes for every member
DoAlter == /\ pc = "alter"
           /\ proofs' = [x \in 1..K |-> IF Mb(x).mut.kind = "none" /\ ~sc.viabytes THEN proofs[x] ELSE Alter(proofs[x], Mb(x).mut)]
           /\ pc' = "vbcheck" /\ UNCHANGED <<sc, i, res, masks, chunk>>

\* lengths handed to verify_batch
NS == K + sc.skew[1]
NP == K + sc.skew[2]
NT == K + sc.skew[3]
Decoded == \A x \in 1..K : proofs[x] # ErrP

\* consistency over a range of members lo..hi (verify_statements_and_generators_consistency)
Consistent(lo, hi) ==
  /\ proofs[lo].tag = Mb(lo).v.t
  /\ \A x \in (lo+1)..hi : /\ Mb(x).v.pgG = Mb(lo).v.pgG /\ Mb(x).v.pgH = Mb(lo).v.pgH
                           /\ Mb(x).v.n = Mb(lo).v.n /\ Mb(x).v.t = Mb(lo).v.t /\ proofs[x].tag = Mb(lo).v.t
  /\ \A x \in lo..hi : PromsFit(Mb(x))

\* a decoding failure means the caller has no proof object: the triple is rejected before verify_batch
VBCheck == /\ pc = "vbcheck"
           /\ IF ~Decoded THEN pc' = "done" /\ res' = "decode_err"
              ELSE IF NS <= 0 \/ NP <= 0 \/ NT <= 0 \/ NS # NP \/ NT # NS THEN pc' = "done" /\ res' = "Err"
              ELSE IF WholeBatchConsistency /\ ~Consistent(1, K) THEN pc' = "done" /\ res' = "Err"
              ELSE pc' = "chunk" /\ UNCHANGED res
           /\ chunk' = 0 /\ UNCHANGED <<sc, i, proofs, masks>>

MaskOf(x) == IF sc.mode = "VerifyOnly" \/ Mb(x).v.seed = 0 THEN "none"
             ELSE IF Mb(x).v.seed = proofs[x].seed THEN "exact" ELSE "other"

\* structural refusals that happen in every mode (also RecoverOnly)
Structural(x) == /\ ~proofs[x].idpoint /\ ~proofs[x].undec
                 /\ RoundsMatch(proofs[x].k, Mb(x).v.n * Mb(x).m)

\* one call of the inner `verify` on members lo..hi
VChunk == /\ pc = "chunk"
          /\ LET lo == chunk * MaxBatch + 1
                 hi == Min(K, (chunk + 1) * MaxBatch) IN
             IF ~Consistent(lo, hi) \/ \E x \in lo..hi : ~Structural(x)
             THEN pc' = "done" /\ res' = "Err" /\ UNCHANGED <<masks, chunk>>
             ELSE IF sc.mode # "RecoverOnly" /\ \E x \in lo..hi : ~MemberValid(Mb(x), proofs[x])
             THEN pc' = "done" /\ res' = "Err" /\ UNCHANGED <<masks, chunk>>
             ELSE /\ masks' = masks \o [x \in 1..(hi - lo + 1) |-> MaskOf(lo + x - 1)]
                  /\ chunk' = chunk + 1
                  /\ IF LoopAllChunks /\ hi < K THEN pc' = "chunk" /\ UNCHANGED res
                     ELSE pc' = "done" /\ res' = "Ok"
          /\ UNCHANGED <<sc, i, proofs>>

Next == Pick \/ DoProve \/ DoAlter \/ VBCheck \/ VChunk \/ (pc = "done" /\ UNCHANGED vars)
Spec == Init /\ [][Next]_vars

(***************************************************************************************************)
(* Properties over terminal states                                                                 *)
(***************************************************************************************************)
Done == pc = "done"
AllValid == Decoded /\ \A x \in 1..K : MemberValid(Mb(x), proofs[x])
WellShaped == NS = K /\ NP = K /\ NT = K /\ K >= 1
Verifying == sc.mode # "RecoverOnly"

BatchConsistent == \A x \in 2..K : /\ Mb(x).v.n = Mb(1).v.n /\ Mb(x).v.t = Mb(1).v.t
                                   /\ Mb(x).v.pgG = Mb(1).v.pgG /\ Mb(x).v.pgH = Mb(1).v.pgH
\* C06: a proof exactly when the witness is valid
C06 == (pc = "alter" /\ i = 1) => \A x \in 1..K : Mb(x).wit.kind = "forge" \/ WitnessValid(Mb(x))
C06b == (Done /\ res = "prove_err") => \E x \in 1..K : ~WitnessValid(Mb(x))
\* C01: honest, unaltered, same statement => accepted in every mode with the right masks
Honest(x) == Mb(x).mut.kind = "none" /\ Mb(x).v = SameV(Mb(x)) /\ Mb(x).wit.kind = "ok"
C01 == (Done /\ res # "prove_err" /\ WellShaped /\ BatchConsistent /\ \A x \in 1..K : Honest(x) /\ (sc.viabytes => proofs[x] # ErrP))
          => res = "Ok"
\* C03: batch verdict == conjunction, k results, aligned
C03 == (Done /\ res \in {"Ok", "Err"} /\ Verifying) =>
         /\ (WellShaped /\ BatchConsistent) => ((res = "Ok") <=> AllValid)
         /\ (~WellShaped \/ ~BatchConsistent) => res = "Err"
         /\ res = "Ok" => (Len(masks) = K /\ \A x \in 1..K : masks[x] = MaskOf(x))
\* C05 / C07 / C12: the verdict is exactly member validity (alterations rejected, capacity irrelevant)
C05 == (Done /\ Verifying /\ res # "prove_err") => ((res = "Ok") => AllValid)
\* C10: RecoverOnly returns the same masks as RecoverAndVerify for accepted batches; the seed never changes the verdict
C10 == (Done /\ sc.mode = "RecoverOnly" /\ res # "prove_err" /\ WellShaped /\ BatchConsistent /\ AllValid) =>
          (res = "Ok" /\ Len(masks) = K /\ \A x \in 1..K : masks[x] = MaskOf(x))
\* C16 (totality): every scenario terminates in a value or an error
C16 == Done => res \in {"Ok", "Err", "prove_err", "decode_err"}

\* what the harness is told to expect (only what the properties state; "any" where they are silent)
Expect ==
  IF res = "prove_err" THEN [prove |-> "err", verify |-> "na", masks |-> <<>>]
  ELSE IF sc.mode = "RecoverOnly" /\ ~(WellShaped /\ BatchConsistent /\ AllValid)
       THEN [prove |-> "ok", verify |-> IF ~WellShaped \/ ~Decoded THEN "err" ELSE "any", masks |-> <<>>]
  ELSE [prove |-> "ok", verify |-> IF res = "Ok" THEN "ok" ELSE "err", masks |-> masks]
\* C14: two runs that differ only in the witness (same commitments, same everything public, same external RNG stream)
\* must not share any randomness-derived proof element
ExpectDistinct == sc.samecommit
====
