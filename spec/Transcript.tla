---- MODULE Transcript ----
(***************************************************************************************************)
(* The Fiat-Shamir transcript of the protocol at merlin level (DESIGN §4.1).                        *)
(*  - Script(mb): the exact sequence of labelled operations of the released protocol for one proof  *)
(*    (strict mode, C19): dom-sep, H, G x t, N, T, M, Ci x m, promise x m (absent as 0), A -> y, z,  *)
(*    (L_j, R_j -> e) x k, (A1, B) -> e, r1, s1, d1 x t.                                             *)
(*  - Required(mb, c): the data that must have been absorbed before the c-th challenge (dependency  *)
(*    mode, C04/C08/C13/C14): everything the property lists that precedes it.                       *)
(* A member record mb carries n, m, t, k, prom64 and the byte tokens of every 32-byte datum.        *)
(***************************************************************************************************)
EXTENDS Integers, Sequences, FiniteSets

U64Of(x) == <<x % 65536, (x \div 65536) % 65536, 0, 0>>       \* small naturals only (n, t, m)
E(op, label, len, kind, v) == [op |-> op, label |-> label, len |-> len, kind |-> kind, v |-> v]
ATok(label, tok) == E("A", label, 32, "tok", tok)
AU64(label, v) == E("A", label, 8, "u64", v)
Chal(label) == E("C", label, 64, "any", 0)

DomSep == "Bulletproofs+ Range Proof"
WeightLabel == "Bulletproofs+ verifier weights"

RECURSIVE Rounds(_,_)
Rounds(mb, j) == IF j > mb.k THEN <<>> ELSE <<ATok("L", mb.tok.L[j]), ATok("R", mb.tok.R[j]), Chal("e")>> \o Rounds(mb, j+1)

Prefix(mb) ==
     <<E("A", "dom-sep", 0, "ctx", 0), E("A", "dom-sep", 25, "str", DomSep), ATok("H", mb.tok.H)>>
  \o [kk \in 1..mb.t |-> ATok("G", mb.tok.G[kk])]
  \o <<AU64("N", U64Of(mb.n)), AU64("T", U64Of(mb.t)), AU64("M", U64Of(mb.m))>>
  \o [j \in 1..mb.m |-> ATok("Ci", mb.tok.C[j])]
  \o [j \in 1..mb.m |-> AU64("vi - minimum_value", mb.prom64[j])]
\* the prover stops after the last challenge; the verifier goes on to absorb the responses (batch weights)
ProverScript(mb) ==
     Prefix(mb) \o <<ATok("A", mb.tok.A), Chal("y"), Chal("z")>> \o Rounds(mb, 1)
  \o <<ATok("A1", mb.tok.A1), ATok("B", mb.tok.B), Chal("e")>>
Script(mb) ==
  ProverScript(mb) \o <<ATok("r1", mb.tok.r1), ATok("s1", mb.tok.s1)>> \o [kk \in 1..mb.t |-> ATok("d1", mb.tok.d1[kk])]

Match(o, x) == /\ o.op = x.op /\ o.label = x.label
               /\ CASE x.kind = "ctx" -> TRUE
                    [] x.kind = "tok" -> o.len = x.len /\ o.tok = x.v
                    [] x.kind = "u64" -> o.len = x.len /\ o.u64 = x.v
                    [] x.kind = "str" -> o.len = x.len /\ o.str = x.v
                    [] x.kind = "any" -> o.len = x.len
\* the observed operations are a prefix of the script (a refused proof stops early), entry by entry
\* whatever the caller absorbed into its transcript before handing it over is context: the protocol's own operations
\* start at its domain separator
RECURSIVE DropCtx(_)
DropCtx(obs) == IF Len(obs) <= 1 THEN obs
                ELSE IF obs[2].op = "A" /\ obs[2].label = "dom-sep" /\ obs[2].str = DomSep THEN obs
                ELSE DropCtx(<<obs[1]>> \o SubSeq(obs, 3, Len(obs)))
MatchesPrefixRaw(obs, script) == Len(obs) <= Len(script) /\ \A i \in 1..Len(obs) : Match(obs[i], script[i])
MatchesPrefix(obs, script) == MatchesPrefixRaw(DropCtx(obs), script)
Matches(obs, script) == Len(DropCtx(obs)) = Len(script) /\ MatchesPrefix(obs, script)

\* data (32-byte tokens) that must be absorbed before the c-th challenge of a proof (c = 1 is y)
Required(mb, c) ==
     {mb.tok.H, mb.tok.A} \cup {mb.tok.G[kk] : kk \in 1..mb.t} \cup {mb.tok.C[j] : j \in 1..mb.m}
  \cup (IF c >= 3 THEN {mb.tok.L[j] : j \in 1..(IF c - 2 < mb.k THEN c - 2 ELSE mb.k)} \cup {mb.tok.R[j] : j \in 1..(IF c - 2 < mb.k THEN c - 2 ELSE mb.k)} ELSE {})
  \cup (IF c >= mb.k + 3 THEN {mb.tok.A1, mb.tok.B} ELSE {})
Responses(mb) == {mb.tok.r1, mb.tok.s1} \cup {mb.tok.d1[kk] : kk \in 1..mb.t}
====
