---- MODULE U64 ----
(* Unsigned 64-bit integers as 4 limbs of 16 bits, little-endian (TLC integers are 32-bit).       *)
(* Only what the library does with u64 values: compare, checked subtraction, "fits in n bits"      *)
(* with the n = 64 special case of the code (`bit_length < 64 && v >> bit_length > 0`).            *)
EXTENDS Integers, Sequences
LB == 65536
U64Zero == <<0, 0, 0, 0>>
U64One  == <<1, 0, 0, 0>>
U64Max  == <<65535, 65535, 65535, 65535>>
IsU64(v) == Len(v) = 4 /\ \A i \in 1..4 : v[i] \in 0..(LB-1)
RECURSIVE P2(_)
P2(k) == IF k = 0 THEN 1 ELSE 2 * P2(k-1)
\* 2^n for 0 <= n <= 63
U64Pow2(n) == [i \in 1..4 |-> IF i = (n \div 16) + 1 THEN P2(n % 16) ELSE 0]
\* comparison, most significant limb first
RECURSIVE LtFrom(_,_,_)
LtFrom(a, b, i) == IF i = 0 THEN FALSE ELSE IF a[i] < b[i] THEN TRUE ELSE IF a[i] > b[i] THEN FALSE ELSE LtFrom(a, b, i-1)
U64Lt(a, b) == LtFrom(a, b, 4)
U64Le(a, b) == a = b \/ U64Lt(a, b)
\* a - b for b <= a
RECURSIVE SubFrom(_,_,_,_,_)
SubFrom(a, b, i, borrow, acc) ==
  IF i > 4 THEN acc
  ELSE LET d == a[i] - b[i] - borrow IN
       IF d < 0 THEN SubFrom(a, b, i+1, 1, Append(acc, d + LB)) ELSE SubFrom(a, b, i+1, 0, Append(acc, d))
U64Sub(a, b) == SubFrom(a, b, 1, 0, <<>>)
\* a + 1 for a < max ; a - 1 for a > 0
RECURSIVE IncFrom(_,_,_)
IncFrom(a, i, acc) == IF i > 4 THEN acc
                      ELSE IF a[i] = LB - 1 THEN IncFrom(a, i+1, Append(acc, 0))
                      ELSE acc \o <<a[i] + 1>> \o SubSeq(a, i+1, 4)
U64Inc(a) == IncFrom(a, 1, <<>>)
U64Dec(a) == U64Sub(a, U64One)
\* the code's range guard:  bit_length < 64 && v >> bit_length > 0   is "does NOT fit"
U64Fits(v, n) == IF n >= 64 THEN TRUE ELSE U64Lt(v, U64Pow2(n))
\* largest n-bit value
U64MaxBits(n) == IF n >= 64 THEN U64Max ELSE U64Dec(U64Pow2(n))
\* checked_sub as in the code
U64CheckedSubOk(a, b) == U64Le(b, a)
====
