---- MODULE TraceProve ----
(***************************************************************************************************)
(* Trace validation of `prove_with_rng` executions recorded from the library over the free-module   *)
(* group with the instrumented merlin (impl -> spec, DESIGN §5.1).                                  *)
(*                                                                                                 *)
(* Events of one call: PCall (inputs: configuration, values, promises, blindings; outputs: the      *)
(* coordinates of A, every L_j/R_j, A1, B over the generator symbols, r1, s1, d1; reference seed    *)
(* nonces when the statement carries a seed), the merlin events in order, PMSM (the static scalars  *)
(* the prover handed to the precomputed MSM that produced A), PRet.                                 *)
(*                                                                                                 *)
(* The nonces are READ OFF the outputs (alpha_k = G_k-coordinate of A, dL/dR of L_j/R_j, d/eta of   *)
(* A1/B, r = r1 - a*e, s = s1 - b*e with a, b the specification's own folded vectors), so the check *)
(* does not depend on the order in which the code draws them.  Checked:                             *)
(*  C01/C09  every other coordinate of every emitted point and d1 equal the specification's prover  *)
(*           (BPS2 step functions: CommitA, Pre/LR/Fold per round, Finish) in BigField; the static  *)
(*           scalars of A are exactly the bits of v - p interleaved with bits - 1, then zeros;      *)
(*           with a seed, the seed-derived nonces equal the reference derivation at (label, j, k).  *)
(*  C13      all nonces non-zero and pairwise distinct; every RNG-derived nonce is the reduction of *)
(*           an output of a generator built AFTER the latest absorption that precedes its use.      *)
(*  C14      every generator that produced output was rekeyed with the serialised witness and       *)
(*           finalised with external bytes; generators are rebuilt after every absorption group.    *)
(*  C04      at every challenge everything Transcript!Required lists has been absorbed.             *)
(*  C19 (Strict) the operation sequence is exactly Transcript!Script; rekey label "witness".        *)
(***************************************************************************************************)
EXTENDS TraceBase, BigField, U64
CONSTANTS Strict, CheckArith,
          CrossFresh,  \* TRUE: compare RNG-derived nonces across the calls of one trace file (C13, C14)
          NoncesOnly   \* long proofs: only the nonces (read off the outputs) are examined

T == INSTANCE Transcript
P == INSTANCE BPS2 WITH FZero <- Zero21, FOne <- One21, FTwo <- Two21, Bug <- "none"
MinusOne == FSub(Zero21, One21)

VARIABLES pc, j, cfg, x, st, pre, out,
          seen      \* earlier calls of this trace file: [sig, nonces] (only used when CrossFresh)
vars == <<l, scripts, abs, chal, rng, pc, j, cfg, x, st, pre, out, seen>>
avars == <<j, x, st, pre, out, seen>>

Init == /\ l = 1 /\ TInit /\ pc = "idle" /\ j = 1 /\ cfg = <<>> /\ x = <<>> /\ st = <<>> /\ pre = <<>> /\ out = <<>> /\ seen = {}

\* ---- inputs -----------------------------------------------------------------------------------------
RECURSIVE Pw(_)
Pw(k) == IF k = 0 THEN 1 ELSE 2 * Pw(k-1)
BitOf(v, b) == (v[(b \div 16) + 1] \div Pw(b % 16)) % 2
Offset(jj) == IF cfg.proms[jj] = <<>> THEN cfg.vals[jj] ELSE U64Sub(cfg.vals[jj], cfg.proms[jj])
Bits == [jj \in 1..cfg.m |-> [i \in 1..cfg.n |-> BitOf(Offset(jj), i - 1)]]
BitAt(xx) == Bits[(xx \div cfg.n) + 1][(xx % cfg.n) + 1]          \* xx = 0-based global index

PCallEv == /\ Is("PCall") /\ pc = "idle"
           /\ cfg' = Rec[l] /\ TReset /\ pc' = "run" /\ l' = l + 1 /\ UNCHANGED avars

\* ---- merlin events ------------------------------------------------------------------------------------
DepOk ==
  LET e == Rec[l] IN
  CASE e.ev = "TChal" /\ e.tid = cfg.tid -> T!Required(cfg, Len(chal[e.tid]) + 1) \subseteq abs[e.tid]
    \* C14: output only from a generator keyed with the serialised witness (and, by RFillEv, finalised with external bytes)
    [] e.ev = "RFill" /\ e.rid \in DOMAIN rng /\ rng[e.rid].tid = cfg.tid ->
         /\ \E q \in 1..Len(rng[e.rid].rekey) : rng[e.rid].rekey[q].tok = cfg.wtok
         /\ Strict => (Len(rng[e.rid].rekey) = 1 /\ rng[e.rid].rekey[1].label = "witness" /\ rng[e.rid].rekey[1].len = cfg.wlen)
    [] OTHER -> TRUE
MerlinEv == /\ pc = "run" /\ l <= NRec
            /\ Rec[l].ev \in {"TNew", "TClone", "TAppend", "TChal", "RBuild", "RRekey", "RFinal", "RFill"}
            /\ DepOk /\ TNext
            /\ UNCHANGED <<pc, cfg>> /\ UNCHANGED avars

\* ---- the commitment MSM for A: bits interleaved with bits - 1, zero padding up to the table size ----------
PMSMEv == /\ Is("PMSM") /\ pc = "run"
          /\ LET e == Rec[l] IN
             \* (the independent prover does not go through a precomputed table: nothing to check for it here)
             \* the library goes through the table once: then the static part has one scalar per table entry (2*n*capacity). A
             \* prover that does not use the table at all has nothing to check here (the coordinates of A are checked anyway)
             /\ cfg.reference \/ e.count = 0 \/ (e.count = 1 /\ e.nstat = e.ntable /\ e.ndyn_s = e.ndyn_p /\ e.nstat = 2 * cfg.n * cfg.cap)
             /\ \A p \in 1..Len(e.stat) :
                  LET xx == e.stat[p][2] * cfg.n + e.stat[p][3] IN
                  /\ e.stat[p][1] \in {"Gi", "Hi"}
                  /\ e.stat[p][4] = IF xx >= cfg.nm THEN Zero21
                                    ELSE IF e.stat[p][1] = "Gi" THEN (IF BitAt(xx) = 1 THEN One21 ELSE Zero21)
                                    ELSE (IF BitAt(xx) = 1 THEN Zero21 ELSE MinusOne)
          /\ l' = l + 1 /\ UNCHANGED <<scripts, abs, chal, rng, pc, cfg>> /\ UNCHANGED avars

\* ---- arithmetic: the specification's prover, micro-step by micro-step ---------------------------------
Ch == chal[cfg.tid]
K == cfg.k
\* nonces read off the outputs (rr, ss are filled in after folding)
NC == [alpha |-> cfg.A.G, dL |-> [jj \in 1..K |-> cfg.Ls[jj].G], dR |-> [jj \in 1..K |-> cfg.Rs[jj].G],
       rr |-> Zero21, ss |-> Zero21, dd |-> cfg.A1.G, eta |-> cfg.B.G]
AsFn(p) == [s \in x.S |-> CASE s[1] = "H" -> p.H [] s[1] = "G" -> p.G[s[2]+1] [] s[1] = "Gi" -> p.Gi[s[2]+1] [] s[1] = "Hi" -> p.Hi[s[2]+1]]

\* reductions of the 64-byte outputs of generators on the prover's transcript whose build saw at least `need`
FillsAfterU(need) == UNION { { Reduce(Rec[rng[rid].fills[f].pos].wide) : f \in {g \in 1..Len(rng[rid].fills) : rng[rid].fills[g].len = 64} } :
                             rid \in {q \in DOMAIN rng : rng[q].tid = cfg.tid /\ need \subseteq rng[q].absAt} }
StmtToks == {cfg.tok.H} \cup {cfg.tok.G[kk] : kk \in 1..cfg.t} \cup {cfg.tok.C[jj] : jj \in 1..cfg.m}
AfterRound(jj) == StmtToks \cup {cfg.tok.A} \cup {cfg.tok.L[i] : i \in 1..jj} \cup {cfg.tok.R[i] : i \in 1..jj}
\* long proofs (bits*aggregation beyond what the folding can be replayed for): only the nonces, read off the G_k-coordinates of
\* A, every L_j / R_j, A1 and B - non-zero, pairwise distinct, seed-derived ones equal to the reference derivation at (label, j, k),
\* RNG-derived ones each the reduction of an output of a generator built after the latest absorption preceding its use
FlatLR(v) == [i \in 1..(K * cfg.t) |-> v[((i-1) \div cfg.t) + 1][((i-1) % cfg.t) + 1]]
NoncesOk ==
  LET all == NC.alpha \o NC.dd \o NC.eta \o FlatLR(NC.dL) \o FlatLR(NC.dR) IN
  /\ cfg.A.other = 0 /\ cfg.A1.other = 0 /\ cfg.B.other = 0
  /\ \A jj \in 1..K : cfg.Ls[jj].other = 0 /\ cfg.Rs[jj].other = 0
  /\ \A a \in 1..Len(all) : all[a] # Zero21
  /\ Cardinality({all[a] : a \in 1..Len(all)}) = Len(all)
  /\ cfg.reference \/
     IF cfg.seeded
     THEN /\ NC.alpha = cfg.nref.alpha /\ NC.dd = cfg.nref.d /\ NC.eta = cfg.nref.eta /\ NC.dL = cfg.nref.dL /\ NC.dR = cfg.nref.dR
     ELSE /\ LET last == FillsAfterU(AfterRound(K)) IN \A kk \in 1..cfg.t : NC.dd[kk] \in last /\ NC.eta[kk] \in last
          /\ LET first == FillsAfterU(StmtToks) IN \A kk \in 1..cfg.t : NC.alpha[kk] \in first
          /\ \A jj \in 1..K : LET fr == FillsAfterU(AfterRound(jj - 1)) IN
                              \A kk \in 1..cfg.t : NC.dL[jj][kk] \in fr /\ NC.dR[jj][kk] \in fr

PRetStart == /\ Is("PRet") /\ pc = "run"
             /\ IF CheckArith /\ cfg.arith
                THEN /\ Len(Ch) = K + 3 /\ Pw(K) = cfg.nm
                     /\ x' = [c |-> [y |-> Reduce(Rec[Ch[1].pos].wide), z |-> Reduce(Rec[Ch[2].pos].wide), e |-> Reduce(Rec[Ch[K+3].pos].wide),
                                     es |-> [jj \in 1..K |-> Reduce(Rec[Ch[2+jj].pos].wide)], yinv |-> Rec[Ch[1].pos].inv,
                                     esinv |-> [jj \in 1..K |-> Rec[Ch[2+jj].pos].inv]],
                              nc |-> NC]
                     /\ pc' = "ctx" /\ UNCHANGED l
                ELSE /\ pc' = "idle" /\ l' = l + 1 /\ UNCHANGED x
                     /\ (NoncesOnly /\ cfg.arith) => NoncesOk
                     /\ Strict => T!Matches(scripts[cfg.tid], T!ProverScript(cfg))
             /\ UNCHANGED <<scripts, abs, chal, rng, j, cfg, st, pre, out, seen>>
MkCtx == /\ pc = "ctx"
         /\ FMul(x.c.y, x.c.yinv) = One21 /\ \A jj \in 1..K : FMul(x.c.es[jj], x.c.esinv[jj]) = One21
         /\ cfg.A.other = 0 /\ cfg.A1.other = 0 /\ cfg.B.other = 0
         /\ \A jj \in 1..K : cfg.Ls[jj].other = 0 /\ cfg.Rs[jj].other = 0
         /\ x' = P!Ctx(cfg.n, cfg.m, cfg.t, K, x.nc, x.c)
         /\ pc' = "A" /\ j' = 1 /\ UNCHANGED <<l, scripts, abs, chal, rng, cfg, st, pre, out, seen>>
PCommitA == /\ pc = "A"
            /\ P!CommitA(x, Bits) = AsFn(cfg.A)
            /\ st' = P!St0(x, Bits, cfg.rb) /\ pc' = "pre"
            /\ UNCHANGED <<l, scripts, abs, chal, rng, j, cfg, x, pre, out, seen>>
PPre == /\ pc = "pre" /\ j <= K
        /\ pre' = P!Pre(x, st, j) /\ pc' = "lr" /\ UNCHANGED <<l, scripts, abs, chal, rng, j, cfg, x, st, out, seen>>
PLR == /\ pc = "lr"
       /\ out' = P!LR(x, st, pre, j) /\ pc' = "cmp" /\ UNCHANGED <<l, scripts, abs, chal, rng, j, cfg, x, st, pre, seen>>
PCmp == /\ pc = "cmp"
        /\ out.L = AsFn(cfg.Ls[j]) /\ out.R = AsFn(cfg.Rs[j])
        /\ pc' = "fold" /\ UNCHANGED <<l, scripts, abs, chal, rng, j, cfg, x, st, pre, out, seen>>
PFold == /\ pc = "fold"
         /\ st' = P!FoldSt(x, st, pre, j) /\ j' = j + 1 /\ pc' = "pre"
         /\ UNCHANGED <<l, scripts, abs, chal, rng, cfg, x, pre, out, seen>>
\* the two final masks, read off the responses: r = r1 - a*e, s = s1 - b*e
PFinS == /\ pc = "pre" /\ j > K
         /\ pre' = [rr |-> FSub(cfg.r1, FMul(st.a[1], x.c.e)), ss |-> FSub(cfg.s1, FMul(st.b[1], x.c.e)), ee |-> FMul(x.c.e, x.c.e)]
         /\ pc' = "fin" /\ UNCHANGED <<l, scripts, abs, chal, rng, j, cfg, x, st, out, seen>>
GkC(v, s) == IF s[1] = "G" THEN v[s[2]+1] ELSE Zero21
PFin == /\ pc = "fin"
        /\ LET hco == FAdd(FMul(FMul(pre.rr, x.c.y), st.b[1]), FMul(FMul(pre.ss, x.c.y), st.a[1]))
               rys == FMul(FMul(pre.rr, x.c.y), pre.ss) IN
           /\ AsFn(cfg.A1) = [s \in x.S |-> FAdd(FAdd(FMul(pre.rr, st.gs[1][s]), FMul(pre.ss, st.hs[1][s])),
                                                 FAdd(IF s[1] = "H" THEN hco ELSE Zero21, GkC(x.nc.dd, s)))]
           /\ AsFn(cfg.B) = [s \in x.S |-> FAdd(IF s[1] = "H" THEN rys ELSE Zero21, GkC(x.nc.eta, s))]
           /\ cfg.d1 = [kk \in 1..cfg.t |-> FAdd(x.nc.eta[kk], FAdd(FMul(x.nc.dd[kk], x.c.e), FMul(st.al[kk], pre.ee)))]
        /\ pc' = "prov" /\ UNCHANGED <<l, scripts, abs, chal, rng, j, cfg, x, st, pre, out, seen>>

\* ---- nonce provenance (C13) -----------------------------------------------------------------------------
AllNonces == <<pre.rr, pre.ss>> \o x.nc.alpha \o x.nc.dd \o x.nc.eta
             \o [i \in 1..(K * cfg.t) |-> x.nc.dL[((i-1) \div cfg.t) + 1][((i-1) % cfg.t) + 1]]
             \o [i \in 1..(K * cfg.t) |-> x.nc.dR[((i-1) \div cfg.t) + 1][((i-1) % cfg.t) + 1]]
\* what identifies a run: the serialised witness, every transcript operation, the external bytes fed to the generators
Sig == [w |-> cfg.wtok, ops |-> [i \in 1..Len(scripts[cfg.tid]) |-> <<scripts[cfg.tid][i].op, scripts[cfg.tid][i].label, scripts[cfg.tid][i].tok>>],
        ext |-> {rng[q].ext[1].tok : q \in {q2 \in DOMAIN rng : rng[q2].tid = cfg.tid /\ rng[q2].ext # <<>>}}]
RngNonces == IF cfg.seeded THEN {pre.rr, pre.ss} ELSE {AllNonces[a] : a \in 1..Len(AllNonces)}
PProv == /\ pc = "prov"
         /\ \A a \in 1..Len(AllNonces) : AllNonces[a] # Zero21
         /\ \A a \in 1..Len(AllNonces) : \A b \in (a+1)..Len(AllNonces) : AllNonces[a] # AllNonces[b]
         /\ cfg.reference \/ LET last == FillsAfterU(AfterRound(K)) IN
            /\ pre.rr \in last /\ pre.ss \in last
            /\ IF cfg.seeded
               THEN /\ x.nc.alpha = cfg.nref.alpha /\ x.nc.dd = cfg.nref.d /\ x.nc.eta = cfg.nref.eta
                    /\ x.nc.dL = cfg.nref.dL /\ x.nc.dR = cfg.nref.dR
               ELSE /\ \A kk \in 1..cfg.t : x.nc.dd[kk] \in last /\ x.nc.eta[kk] \in last
                    /\ LET first == FillsAfterU(StmtToks) IN \A kk \in 1..cfg.t : x.nc.alpha[kk] \in first
                    /\ \A jj \in 1..K : LET fr == FillsAfterU(AfterRound(jj - 1)) IN
                                        \A kk \in 1..cfg.t : x.nc.dL[jj][kk] \in fr /\ x.nc.dR[jj][kk] \in fr
         /\ Strict => T!Matches(scripts[cfg.tid], T!ProverScript(cfg))
         \* across calls: an identical run (same witness, same operations, same external bytes) reproduces its nonces;
         \* any other run shares no RNG-derived nonce with this one
         /\ CrossFresh => \A s \in seen : IF s.sig = Sig THEN s.nonces = RngNonces ELSE s.nonces \cap RngNonces = {}
         /\ seen' = IF CrossFresh THEN seen \cup {[sig |-> Sig, nonces |-> RngNonces]} ELSE seen
         /\ pc' = "idle" /\ l' = l + 1
         /\ UNCHANGED <<scripts, abs, chal, rng, j, cfg, x, st, pre, out>>

Next == PCallEv \/ MerlinEv \/ PMSMEv \/ PRetStart \/ MkCtx \/ PCommitA \/ PPre \/ PLR \/ PCmp \/ PFold \/ PFinS \/ PFin \/ PProv
Spec == Init /\ [][Next]_vars

ASSUME TLCSet(41, 0)
Progress == TLCSet(41, IF TLCGet(41) < l THEN l ELSE TLCGet(41))
Accepted == IF TLCGet(41) = NRec + 1 THEN TRUE
            ELSE PrintT(<<"REJECTED", TLCGet(41), IF TLCGet(41) <= NRec THEN [ev |-> Rec[TLCGet(41)].ev, scen |-> Rec[TLCGet(41)].scen] ELSE "end">>) /\ FALSE
====
