---- MODULE MC_Codec ----
(***************************************************************************************************)
(* C15 (and the decoding half of C16): the proof decoder, step by step as coded, over an abstraction *)
(* of byte strings: (total length, first byte, which 32-byte chunk - if any - is not a canonical     *)
(* scalar encoding).  Steps: first byte -> degree tag; chunks_exact(32) of the rest; d1 x tag        *)
(* (scalars); A, A1, B (points: any 32 bytes); r1, s1 (scalars); (L, R) pairs; non-empty; no          *)
(* leftover element; no leftover bytes.  The invariant states the acceptance set in closed form      *)
(* (C15): first byte d in 1..6, then 5 + d + 2k elements with k >= 1, every scalar element canonical.*)
(* Every terminal state is printed and executed on `from_bytes` / serde by the harness.              *)
(***************************************************************************************************)
EXTENDS Integers, Sequences, FiniteSets, TLC, Json
CONSTANTS Tier
Quick == Tier = "quick"

FirstBytes == IF Quick THEN {0, 1, 2, 6, 7, 255} ELSE (0..9) \cup {127, 128, 255}
MaxLen == 1 + 32 * (5 + 6 + 2 * 4) + 33
\* long encodings: many folding rounds (the decoder puts no upper limit on k)
LongLens == { 1 + 32 * (5 + d + 2 * k) + e : d \in {1, 6}, k \in {13, 14, 15, 16, 17, 18, 31, 63, 64, 65, 100, 124, 125, 126, 127, 128, 129, 130, 255, 256, 300, 1020, 1021, 1024, 2050, 4100}, e \in {0, 1} }
Lens == (IF Quick THEN {x \in 0..MaxLen : x % 32 \in {0, 1, 2, 31} \/ x < 4} ELSE 0..MaxLen) \cup LongLens

VARIABLES pc, len, fb, nc, tag, pos, pairs, res
vars == <<pc, len, fb, nc, tag, pos, pairs, res>>
\* nc = 0: every chunk canonical as a scalar; nc = i >= 1: the i-th 32-byte chunk after the first byte is not
NCh == IF len = 0 THEN 0 ELSE (len - 1) \div 32       \* number of full chunks
Rem == IF len = 0 THEN 0 ELSE (len - 1) % 32
Init == /\ pc = "first" /\ tag = 0 /\ pos = 0 /\ pairs = 0 /\ res = "none"
        /\ len \in Lens /\ fb \in FirstBytes
        /\ nc \in {x \in 0..(IF len = 0 THEN 0 ELSE (len - 1) \div 32) :
                      x <= 24 \/ x >= ((len - 1) \div 32) - 1 \/ (IF len <= 32 * 700 THEN x % 16 = 0 ELSE x % 1024 = 0)}
Fail == pc' = "done" /\ res' = "err" /\ UNCHANGED <<len, fb, nc, tag, pos, pairs>>
Step(npc) == pc' = npc /\ UNCHANGED <<len, fb, nc, res>>

First == /\ pc = "first"
         /\ IF len = 0 \/ fb \notin 1..6 THEN Fail ELSE Step("d1") /\ tag' = fb /\ pos' = 0 /\ UNCHANGED pairs
\* a scalar is parsed from the next chunk: it must exist and be canonical
ScalarOk == pos + 1 <= NCh /\ nc # pos + 1
D1 == /\ pc = "d1"
      /\ IF pos = tag THEN Step("points") /\ UNCHANGED <<tag, pos, pairs>>
         ELSE IF ScalarOk THEN Step("d1") /\ pos' = pos + 1 /\ UNCHANGED <<tag, pairs>> ELSE Fail
Points == /\ pc = "points"
          /\ IF pos + 3 <= NCh THEN Step("r1s1") /\ pos' = pos + 3 /\ UNCHANGED <<tag, pairs>> ELSE Fail
R1S1 == /\ pc = "r1s1"
        /\ IF pos < tag + 5 THEN (IF ScalarOk THEN Step("r1s1") /\ pos' = pos + 1 /\ UNCHANGED <<tag, pairs>> ELSE Fail)
           ELSE Step("pairs") /\ pairs' = (NCh - pos) \div 2 /\ pos' = pos + 2 * ((NCh - pos) \div 2) /\ UNCHANGED tag
Pairs == /\ pc = "pairs"
         /\ IF pairs = 0 THEN Fail
            ELSE IF NCh - pos > 0 \/ Rem > 0 THEN Fail
            ELSE pc' = "done" /\ res' = "ok" /\ UNCHANGED <<len, fb, nc, tag, pos, pairs>>
Next == First \/ D1 \/ Points \/ R1S1 \/ Pairs \/ (pc = "done" /\ UNCHANGED vars)
Spec == Init /\ [][Next]_vars

\* the acceptance set of C15, in closed form
Closed == /\ len >= 1 /\ fb \in 1..6 /\ Rem = 0
          /\ (NCh - 5 - fb) % 2 = 0 /\ NCh - 5 - fb >= 2
          /\ (nc = 0 \/ ~(nc <= fb \/ nc \in {fb + 4, fb + 5}))
C15 == pc = "done" => ((res = "ok") <=> Closed)
\* decoding is total: every input ends in a value or an error (C16)
Total == pc = "done" => res \in {"ok", "err"}
Emit == pc = "done" => PrintT(<<"REPLAY", ToJson([op |-> "decode", len |-> len, fb |-> fb, nc |-> nc, expect |-> res])>>)
====
