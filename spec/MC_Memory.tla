---- MODULE MC_Memory ----
(* Model-checking configuration of Memory.tla: the library's secret-bearing owners; `Plain` adds the  *)
(* seeded defect (a temporary copy of the seed that is freed without being wiped).                    *)
EXTENDS Integers, Sequences, FiniteSets, TLC
CONSTANTS Plain
MaxBlocks == 3
Owners == {[name |-> "witness", wipes |-> TRUE, secret |-> "blinding"], [name |-> "recovered mask", wipes |-> TRUE, secret |-> "blinding"],
           [name |-> "nonce key", wipes |-> TRUE, secret |-> "seed"]}
          \cup (IF Plain THEN {[name |-> "temporary copy", wipes |-> FALSE, secret |-> "seed"]} ELSE {})
VARIABLES heap, leaked
INSTANCE Memory
====
