---- MODULE MC_Nonce ----
(***************************************************************************************************)
(* C09 / C13 / C19: the seed-nonce derivation.  nonce(seed, label, j?, k?) = reduce_wide(Blake2b-512  *)
(* keyed MAC with key = 0x00 || seed(32) || ['j' || LE32(j)] || ['k' || LE32(k)], persona = label,     *)
(* no salt, empty message).  Labels: alpha (k), dL and dR (round j, k), d (k), eta (k).               *)
(* TLC checks that (label, j, k) |-> (persona, key suffix) is injective over the protocol's index     *)
(* domains (so no two nonces of one proof collide by construction), and prints the table the harness  *)
(* uses as its reference derivation.                                                                  *)
(***************************************************************************************************)
EXTENDS Integers, Sequences, FiniteSets, TLC, Json
CONSTANTS MaxRounds, MaxDeg
LE32(x) == <<x % 256, (x \div 256) % 256, (x \div 65536) % 256, (x \div 16777216) % 256>>
J == 106   \* 'j'
K == 107   \* 'k'
Suffix(j, k) == (IF j = -1 THEN <<>> ELSE <<J>> \o LE32(j)) \o (IF k = -1 THEN <<>> ELSE <<K>> \o LE32(k))
Uses == { <<"alpha", -1, k>> : k \in 0..(MaxDeg-1) } \cup { <<"d", -1, k>> : k \in 0..(MaxDeg-1) } \cup { <<"eta", -1, k>> : k \in 0..(MaxDeg-1) }
     \cup { <<"dL", j, k>> : j \in 0..(MaxRounds-1), k \in 0..(MaxDeg-1) } \cup { <<"dR", j, k>> : j \in 0..(MaxRounds-1), k \in 0..(MaxDeg-1) }
Derive(u) == <<u[1], Suffix(u[2], u[3])>>          \* (persona, key after the seed)
Injective == Cardinality({Derive(u) : u \in Uses}) = Cardinality(Uses)
PersonaFits == \A u \in Uses : u[1] \in {"alpha", "d", "eta", "dL", "dR"}      \* all at most 16 bytes
VARIABLES done
Init == done = FALSE
Next == done' = TRUE
Spec == Init /\ [][Next]_done
Emit == done => PrintT(<<"REPLAY", ToJson([key_prefix |-> <<0>>, seed_len |-> 32,
                                          table |-> { [label |-> u[1], j |-> u[2], k |-> u[3], suffix |-> Suffix(u[2], u[3])] : u \in Uses }])>>)
====
