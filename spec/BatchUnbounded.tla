---- MODULE BatchUnbounded ----
(***************************************************************************************************)
(* C03, symbolic: the orchestration of verify_batch (input-shape guard, whole-batch consistency,    *)
(* chunk loop, result vector) with the batch size K, the chunk size MB, the three input lengths and  *)
(* the validity / bit-length class of every member left SYMBOLIC (K, MB in 1..N).  Apalache checks   *)
(* `verdict == conjunction, K aligned results, refusals` for every chunk size at once, where the TLC  *)
(* model fixes MaxBatch = 2.  `Loop`/`Whole` = FALSE are the seeded defects.                         *)
(***************************************************************************************************)
EXTENDS Integers
CONSTANTS
  \* @type: Int;
  N,
  \* @type: Bool;
  Loop,
  \* @type: Bool;
  Whole

VARIABLES
  \* @type: Str;
  pc,
  \* @type: Int;
  k,
  \* @type: Int;
  mb,
  \* @type: Int;
  np,
  \* @type: Int;
  nt,
  \* @type: Int -> Bool;
  valid,
  \* @type: Int -> Int;
  cls,
  \* @type: Int;
  done,
  \* @type: Str;
  res

CInit == N = 10 /\ Loop = TRUE /\ Whole = TRUE
CInitLoopOnly == N = 10 /\ Loop = TRUE /\ Whole = FALSE
CInitFirstChunk == N = 10 /\ Loop = FALSE /\ Whole = FALSE

Idx == 1..10
Init == /\ pc = "start" /\ done = 0 /\ res = "none"
        /\ k \in 0..N /\ mb \in 1..N /\ np \in 0..(N+1) /\ nt \in 0..(N+1)
        /\ valid \in [Idx -> BOOLEAN] /\ cls \in [Idx -> 0..1]

Consistent(lo, hi) == \A x \in Idx : (lo <= x /\ x <= hi) => cls[x] = cls[lo]
AllValid(lo, hi) == \A x \in Idx : (lo <= x /\ x <= hi) => valid[x]
Min(a, b) == IF a < b THEN a ELSE b

Check == /\ pc = "start"
         /\ IF k = 0 \/ np = 0 \/ nt = 0 \/ k # np \/ nt # k \/ (Whole /\ ~Consistent(1, k))
            THEN pc' = "done" /\ res' = "Err" ELSE pc' = "chunk" /\ res' = res
         /\ UNCHANGED <<k, mb, np, nt, valid, cls, done>>
Chunk == /\ pc = "chunk"
         /\ LET lo == done + 1  hi == Min(k, done + mb) IN
            IF ~Consistent(lo, hi) \/ ~AllValid(lo, hi)
            THEN pc' = "done" /\ res' = "Err" /\ done' = done
            ELSE /\ done' = hi
                 /\ IF Loop /\ hi < k THEN pc' = "chunk" /\ res' = res ELSE pc' = "done" /\ res' = "Ok"
         /\ UNCHANGED <<k, mb, np, nt, valid, cls>>
Stutter == pc = "done" /\ UNCHANGED <<pc, k, mb, np, nt, valid, cls, done, res>>
Next == Check \/ Chunk \/ Stutter

WellShaped == k >= 1 /\ np = k /\ nt = k
C03 == pc = "done" =>
   /\ (WellShaped /\ Consistent(1, k)) => ((res = "Ok") <=> AllValid(1, k))
   /\ (~WellShaped \/ ~Consistent(1, k)) => res = "Err"
   /\ res = "Ok" => done = k
====
