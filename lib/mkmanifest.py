#!/usr/bin/env python3
"""Regenerate /verif/MANIFEST.json from the table below (single source of truth for the interface)."""
import json, os, sys
HERE = os.path.dirname(os.path.abspath(__file__))
VERIF = os.path.dirname(HERE)
ALL = [json.loads(l)["id"] for l in open(os.path.join(VERIF, "properties.jsonl"))]

TRUST = ("TLC and the TLA+ semantics; the harness's free-module group and instrumented merlin copy (harness/src/fm.rs, "
         "harness/vendor/merlin: STROBE untouched); curve25519-dalek, merlin, sha3, blake2 as black boxes; "
         "cryptographic assumptions (DL, random oracle) are not modelled")

T = {
 "C01": dict(tech="TLA+ API state machine (BPPApi.tla) model-checked by TLC; every TLC behaviour replayed on the library (Ristretto + free-module group)",
             text="TLC enumerates the configuration lattice (bit length x aggregation x capacity x degree x value/promise classes x seed x RNG model x mode) as behaviours of the API machine and checks completeness as an invariant of the specification; each behaviour is then executed on the real library over Ristretto and over the free-module group and must give the predicted outcome class and masks.",
             ref="§6 C01"),
 "C02": dict(tech="TLC: code-shaped verifier == published relation over GF(p) (MC_Algebra, seeded-bug negatives); TLC trace validation of the library's final-MSM scalars against the published relation in 252-bit arithmetic (TraceVerify/BigField)",
             text="(a) TLC proves, exhaustively over small prime fields, that the code-shaped verifier (batched inverses, s recurrence, d by doubling, d_sum squaring trick, geometric y_sum, padding) equals weight x the published recursive zk-WIP relation on every symbol, and catches seeded coefficient bugs. (b) The unmodified library runs over a free-module group so every scalar it hands to its final multiscalar multiplication is recorded; TLC recomputes the published relation at the recorded Fiat-Shamir challenges in Z_l (BigField.tla) and requires equality on every generator, proof element and commitment, zero padding, nothing extra, and verdict == (result is identity) - for honest, altered, aggregated, promised and mixed-capacity batches. (c) every single alteration is replayed for verdict agreement.",
             ref="§6 C02"),
 "C03": dict(tech="TLA+ model of verify_batch orchestration (chunk loop, consistency, result vector) checked by TLC with negative configs, by Apalache with the chunk size symbolic and (thorough tier) proved for every batch and chunk size with TLAPS; behaviours replayed at model scale and with chunks expanded to the real 256; TLC trace validation of the batch weights",
             text="The chunk loop of verify_batch is a spec action with MaxBatch a constant; TLC checks verdict == conjunction, k aligned results and the refusal cases for every assignment of valid/invalid/disagreeing members up to 3*MaxBatch+1, and must find the violation in the two seeded-bug configurations (first chunk only; loop without whole-batch consistency). Every behaviour is replayed on the library, and again with each model chunk expanded to 256 real members so the real chunk boundaries are hit. The thorough tier also discharges an inductive invariant of the same actions with the TLA+ proof system (every batch size, every chunk size), and requires the proof to fail for two seeded design defects.",
             ref="§6 C03"),
 "C04": dict(tech="TLA+ term model of the transcript (MC_Transcript, omission negatives) checked by TLC; TLC trace validation of recorded merlin operations: dependency at every challenge and single-datum perturbation pairs (TraceTranscriptPair)",
             text="(MC) a term model of the Fiat-Shamir discipline: TLC checks that every challenge depends on everything absorbed before it and that omitting any single absorption is caught. (TV-2) the unmodified library runs with an instrumented merlin; for every datum d (context, H, each G_k, n, each commitment, each promise, A, each L_j/R_j, A1, B) TLC validates a pair of recorded verifier runs differing only in d: challenge sequences equal before and ALL different from the first challenge after d (index computed by the spec). (TV-1) in hundreds of prover and verifier runs every 32-byte datum is absorbed before the challenges that must depend on it. (RP) perturbed contexts are rejected.",
             ref="§6 C04"),
 "C05": dict(tech="TLA+ API state machine with alteration actions, TLC-enumerated single alterations replayed on the library",
             text="TLC enumerates every single alteration of an accepted triple (each scalar and point slot with several replacement kinds, rounds +/-, degree tag, trailing/truncated bytes, each promise, commitment, generator, bit length, capacity, label) and predicts reject / accept (None<->Some(0), capacity); the library must agree on both groups and never panic.",
             ref="§6 C05"),
 "C06": dict(tech="TLA+ prover guard sequence (PGuard, U64 limb arithmetic) vs witness relation checked by TLC, and by Apalache with every value/promise an arbitrary 64-bit integer; all boundary behaviours replayed; TLC trace validation of the committed bits",
             text="The prover's guards in code order are a spec operator over 4x16-bit-limb u64 arithmetic; TLC checks `proof <=> witness valid` over boundary values/promises at every position and every witness deviation, and the library is run on each.",
             ref="§6 C06"),
 "C07": dict(tech="TLA+ API machine: promise substitution at verification, TLC-enumerated, replayed",
             text="Per position of an aggregate every promise class is substituted at verification time; the spec predicts acceptance only for value-wise equal vectors and refusal of promises not fitting the bit length; replayed on both groups.",
             ref="§6 C07"),
 "C08": dict(tech="TLC adversary game over formal weights (MC_Weights) and weight-seed binding (MC_Transcript); TLC trace validation of weight provenance and homogeneity in 252-bit arithmetic (TraceVerify) incl. two-chunk batches of 258 distinct proofs split per chunk (WeightsOnly), response-perturbation pairs",
             text="(MC) an adaptive-adversary game with weights as formal indeterminates: no cancellation under the code's policy, attacks found for 'blind to a response' and 'constant' policies; the weight seed contains r1, s1 and every d1. (TV) on recorded multi-member batches TLC checks: member i's contribution to the weight transcript is an output of a generator built on i's transcript after all its responses were absorbed, the weight generator is built after every member contributed, w_i (defined as minus the scalar on B_i) is non-zero, is the reduction of a weight-generator output, distinct per member, and multiplies every scalar of proof i. Changing any response scalar changes the contribution and every weight.",
             ref="§6 C08"),
 "C09": dict(tech="TLA+ API machine mask-result pattern (MaskOf) checked by TLC; behaviours replayed with exact mask comparison (also beyond the chunk limit); TLC trace validation: seed nonces at (label, j, k) in the prover, recovery equation in the verifier (BigField)",
             text="Seeds x modes x batch compositions; the predicted per-member result (none / exact mask) is compared with the library's output component-wise.",
             ref="§6 C09"),
 "C10": dict(tech="TLA+ API machine: verdict independent of seed and mode, RecoverOnly masks; TLC-enumerated, replayed; TLC trace validation of the recovery equation under wrong seeds and in RecoverOnly; long (21-40 member) and 256-scale batches",
             text="valid and invalid proofs x {no seed, right seed, wrong seed} x three modes; predicted verdicts and mask classes (exact / other / none) compared on both groups.",
             ref="§6 C10"),
 "C15": dict(tech="TLA+ step-wise decoder == closed-form acceptance set, checked by TLC over (length, first byte, non-canonical chunk) and by Apalache with the length symbolic (every length); every TLC state executed on from_bytes/serde (slice and stream); prover outputs round-tripped; limb-wise model of scalar canonicity (MC_Scalar) executed value by value",
             text="The decoder is a pc-machine shaped like the code (first byte, chunks_exact, d1 x tag, points, r1/s1, pairs, non-empty, leftovers); TLC proves acceptance <=> the closed form of C15 over every (total length 0..642, first byte class, which chunk is non-canonical) and prints each state; the harness builds concrete bytes for each (canonical random scalars, four kinds of non-canonical encodings) and checks from_bytes, re-encoding equality, the bincode form and getters. Prover outputs over the configuration lattice are checked for the length formula and decode(encode(p)) = p; the n*m = 1 failure is the recorded finding.",
             ref="§6 C15"),
 "C16": dict(tech="TLA+ totality of decoder and API machine (TLC), TLC-enumerated hostile shapes replayed under catch_unwind in release (overflow checks on) and dev profiles, random strings of every length",
             text="Every TLC state of the decoder machine and every behaviour of the hostile family (round counts up to 200 and around 31/32/63/64, every degree tag, identity and undecodable points per slot, truncated/trailing bytes, all three modes), every single alteration and every batch shape (length skews, disagreeing members, beyond the chunk limit) is executed on both groups; a panic, abort or a result other than the predicted value/error class is a violation. Time proportionality is only policed by the harness timeout.",
             ref="§6 C16"),
 "C17": dict(tech="TLA+ constructor guards as coded == documented domains (MC_Constructors, TLC), exhaustive execution of every state on the real constructors",
             text="bit length x capacity in 0..130, commitment count 0..17 x promise count x seed x capacity, all opening shapes with blinding counts 0..8 (<= 4 openings), mask and commit lengths 0..8 x degree, every u8 and a usize set incl. 2^32 +- 1 and usize::MAX: each is one TLC state with the predicted Ok/Err; the harness calls the constructor and compares outcome and getter values (no silent adjustment) on both groups.",
             ref="§6 C17"),
 "C18": dict(tech="TLC: once-cell model over all interleavings with liveness (MC_Once), pure-call history model (MC_Histories) with negatives; TLC-generated histories executed on real threads with forced hand-off; races in fresh processes validated by TLC (TraceThreads); 18-call menu incl. a volume call, a long proof and a doubly inconsistent batch",
             text="(MC) two dependent once-cells x 3 threads, all interleavings: single initialisation, readers see the complete value, no stuck state, termination under fairness; check-then-act initialisation is caught. Call histories over a 10-call menu (parameter sets sharing bit length or capacity, proofs with fixed RNG streams, verifications, generator accessors, a shared parameter object) are enumerated by TLC and executed with the same hand-off order on real threads; free-running threads behind a barrier in fresh processes race the first use of the statics. TLC validates every recorded return against the reference digest of the same call run alone in a fresh single-threaded process. Real schedules are sampled, not enumerated.",
             ref="§6 C18"),
 "C19": dict(tech="TLC-checked transcript script, nonce-key layout and generator naming (Transcript.tla, MC_Nonce, MC_Generators) used in STRICT mode trace validation of the library's prover and verifier; golden vectors from the pinned release",
             text="(a) 132 vectors recorded from the pinned 0.4.0 tree (7 bit lengths x 5 aggregation/capacity pairs x 4 degrees, seeded and unseeded, promises) must decode, verify (also under a different capacity) and yield the recorded masks. (b) strict-mode trace validation: every transcript operation of recorded prover and verifier runs must equal Transcript!Script (label byte strings, lengths, order, RNG rekey label, weight-transcript label), the table layout must be the interleaved one, the seed-derived nonces found in the proof points must equal the reference derivation whose key layout is printed by TLC from MC_Nonce, and generators must equal the derivation script printed from MC_Generators - a consistent prover+verifier change (renamed label, reordered absorption, different nonce index, different generator label) deviates from the specification even though prove-then-verify still passes. (c) the prover/verifier algebra in those traces is the published protocol (BPS2/BPVSteps == BPV!RefForm by T0-T2), i.e. the specification itself is the independent straight-from-the-paper implementation and the library's proofs are checked against it element by element.",
             ref="§6 C19"),
 "C20": dict(tech="TLC: heap-block lifecycle model (Memory.tla) with a seeded unwiped-copy negative; tracing global allocator records every release during secret-handling scenarios in dev and release profiles; TLC validates the trace (TraceMemory), incl. a worker thread's whole life and a 258-member mixed batch",
             text="A tracing global allocator scans every block released (dealloc/realloc) while the library handles secrets - drops of opening/witness/mask, seeded and unseeded prove, verify with recovery, recover-only, a prover error path - for the byte patterns of the seed, every blinding factor and 64-bit value; TLC accepts the trace only if no release carries a secret and the inline statement seed is gone after drop. Degrees 1..6, aggregation 1..4, 8- and 64-bit. Only heap blocks released during the scenarios are covered (not stack or registers).",
             ref="§6 C20"),
 "C13": dict(tech="TLC term model (freshness, generator sees whole transcript); TLC trace validation of the prover in 252-bit arithmetic with nonces read off the proof points (TraceProve), and nonces-only validation of long proofs (bits*aggregation up to 4096)",
             text="The prover runs over the free-module group, so alpha_k, dL/dR, d, eta are coordinates of A, L_j/R_j, A1, B and r, s follow from r1, s1; TLC checks they are non-zero, pairwise distinct, each the reduction of an output of a generator built after the latest absorption preceding its use (unseeded) or exactly the reference seed derivation at (label, j, k) (seeded; r and s still from the generator), and that different runs share none - for all degrees 1..6.",
             ref="§6 C13"),
 "C14": dict(tech="TLC term model under RNG fault models (negatives: no witness rekey, no rebuild); TLC trace validation of generator keying and of run pairs under faulty external RNGs (TraceProve CrossFresh)",
             text="(MC) with the external RNG all-zero / constant / period-2 / replayed, runs differing in any one input - the witness alone included - share no nonce term and identical runs reproduce; dropping the witness rekey or the rebuild is caught. (TV) in recorded prover runs every generator that produced output was rekeyed with the serialised witness and finalised with external bytes, and is rebuilt after each absorption group; pairs of runs with identical blindings and the same faulty RNG stream, identical or differing in one input, are validated by TLC: identical => same nonces, different => disjoint.",
             ref="§6 C14"),
 "C11": dict(tech="TLC: naming/layout model of the generators (MC_Generators: injectivity, interleaved positions, capacity independence) that prints the derivation script; the harness executes the script with SHAKE256/SHA3-512 against the library for every (bits, capacity); TLC trace validation of table layout",
             text="TLC checks that the naming function (prefix || kind || LE32(party), block index) is injective over 2*32*64 names and disjoint from the six blinding labels, that table positions interleave G and H bijectively, and capacity independence; it prints the byte strings of the derivation, which the harness executes independently and compares with every generator of every (bits in 1..64, capacity in 1..32) parameter set on Ristretto and the free-module group: equality with the documented derivation, pairwise distinct non-identity encodings (4096 + 7), compressed accessors = encodings, precomputed table == interleaved generators (random and unit vectors through the table vs plain MSM), concurrent construction on threads; static scalar positions in recorded prover/verifier MSMs are validated against the layout.",
             ref="§6 C11"),
 "C12": dict(tech="TLA+ API machine: capacity irrelevant to validity; all capacity pairs and mixed-capacity batches replayed, also beyond the chunk limit",
             text="All pairs (prover capacity, verifier capacity) >= m up to 32 and mixed-capacity batches are behaviours of the spec predicted to accept; replayed on both groups.",
             ref="§6 C12"),
}

def main():
    checks = []
    for pid in ALL:
        if pid not in T:
            continue
        t = T[pid]
        checks.append({
            "property_id": pid,
            "quick_cmd": f"./check {pid} --tier quick",
            "thorough_cmd": f"./check {pid} --tier thorough",
            "evidence_file": f"/verif/evidence/{pid}.json",
            "replay_cmd_template": f"./check {pid} --replay {{path}}",
            "engine": "tla-conformance",
            "level_claimed": {"category": "model_checking", "text": t["text"], "design_ref": "DESIGN.md " + t["ref"]},
            "level_note": TRUST,
            "technique": t["tech"],
        })
    na = [{"property_id": p, "reason": "check not built yet (work in progress; see DESIGN.md section 12)"} for p in ALL if p not in T]
    m = {
        "version": 1,
        "setup_cmd": "./setup.sh",
        "hooks": {"guard": "--cfg bpp_verif",
                  "enable": "harness/.cargo/config.toml passes --cfg bpp_verif to every crate of the harness build; no source hook in /repo is used (all observation is through the library's own generic seams: curve traits, caller-supplied transcript and RNG, global allocator)",
                  "baseline_off_cmd": "cd /repo && cargo test --workspace --no-fail-fast --offline",
                  "source_commits": [], "add_only": True},
        "engines": [{"name": "tla-conformance", "path": "/verif/check", "serves_properties": [c["property_id"] for c in checks],
                     "kind_free_text": "explicit TLA+ specification (/verif/spec) model-checked by TLC; TLC-generated behaviours replayed on the library and library traces validated by TLC (harness in /verif/harness)"}],
        "checks": checks,
        "notes": "Genuine defects found and repaired are listed in known_findings.json ('fixed'). See DESIGN.md.",
        "not_applicable": na,
    }
    json.dump(m, open(os.path.join(VERIF, "MANIFEST.json"), "w"), indent=1)
    print("checks:", [c["property_id"] for c in checks], "not_applicable:", [n["property_id"] for n in na])

if __name__ == "__main__":
    main()
