#!/usr/bin/env python3
"""Regenerate /verif/MANIFEST.json from the table below (single source of truth for the interface)."""
import json, os, sys
HERE = os.path.dirname(os.path.abspath(__file__))
VERIF = os.path.dirname(HERE)
ALL = [json.loads(l)["id"] for l in open(os.path.join(VERIF, "properties.jsonl"))]

TRUST = ("TLC and the TLA+ semantics; the harness's free-module group and instrumented merlin copy (harness/src/fm.rs, "
         "harness/vendor/merlin: STROBE untouched); curve25519-dalek, merlin, sha3, blake2 as black boxes; "
         "cryptographic assumptions (DL, random oracle) are not modelled")

T = {
 "C01": dict(tech="TLA+ API state machine (BPPApi.tla) model-checked by TLC; every TLC behaviour replayed on the library (Ristretto + free-module group)",
             text="TLC enumerates the configuration lattice (bit length x aggregation x capacity x degree x value/promise classes x seed x RNG model x mode) as behaviours of the API machine and checks completeness as an invariant of the specification; each behaviour is then executed on the real library over Ristretto and over the free-module group and must give the predicted outcome class and masks.",
             ref="§6 C01"),
 "C02": dict(tech="TLC: code-shaped verifier == published relation over GF(p) (MC_Algebra, seeded-bug negatives); TLC trace validation of the library's final-MSM scalars against the published relation in 252-bit arithmetic (TraceVerify/BigField)",
             text="(a) TLC proves, exhaustively over small prime fields, that the code-shaped verifier (batched inverses, s recurrence, d by doubling, d_sum squaring trick, geometric y_sum, padding) equals weight x the published recursive zk-WIP relation on every symbol, and catches seeded coefficient bugs. (b) The unmodified library runs over a free-module group so every scalar it hands to its final multiscalar multiplication is recorded; TLC recomputes the published relation at the recorded Fiat-Shamir challenges in Z_l (BigField.tla) and requires equality on every generator, proof element and commitment, zero padding, nothing extra, and verdict == (result is identity) - for honest, altered, aggregated, promised and mixed-capacity batches. (c) every single alteration is replayed for verdict agreement.",
             ref="§6 C02"),
 "C03": dict(tech="TLA+ model of verify_batch orchestration (chunk loop, consistency, result vector) checked by TLC with negative configs; behaviours replayed at model scale and with chunks expanded to the real 256",
             text="The chunk loop of verify_batch is a spec action with MaxBatch a constant; TLC checks verdict == conjunction, k aligned results and the refusal cases for every assignment of valid/invalid/disagreeing members up to 3*MaxBatch+1, and must find the violation in the two seeded-bug configurations (first chunk only; loop without whole-batch consistency). Every behaviour is replayed on the library, and again with each model chunk expanded to 256 real members so the real chunk boundaries are hit.",
             ref="§6 C03"),
 "C04": dict(tech="TLA+ term model of the transcript (MC_Transcript, omission negatives) checked by TLC; TLC trace validation of recorded merlin operations: dependency at every challenge and single-datum perturbation pairs (TraceTranscriptPair)",
             text="(MC) a term model of the Fiat-Shamir discipline: TLC checks that every challenge depends on everything absorbed before it and that omitting any single absorption is caught. (TV-2) the unmodified library runs with an instrumented merlin; for every datum d (context, H, each G_k, n, each commitment, each promise, A, each L_j/R_j, A1, B) TLC validates a pair of recorded verifier runs differing only in d: challenge sequences equal before and ALL different from the first challenge after d (index computed by the spec). (TV-1) in hundreds of prover and verifier runs every 32-byte datum is absorbed before the challenges that must depend on it. (RP) perturbed contexts are rejected.",
             ref="§6 C04"),
 "C05": dict(tech="TLA+ API state machine with alteration actions, TLC-enumerated single alterations replayed on the library",
             text="TLC enumerates every single alteration of an accepted triple (each scalar and point slot with several replacement kinds, rounds +/-, degree tag, trailing/truncated bytes, each promise, commitment, generator, bit length, capacity, label) and predicts reject / accept (None<->Some(0), capacity); the library must agree on both groups and never panic.",
             ref="§6 C05"),
 "C06": dict(tech="TLA+ prover guard sequence (PGuard, U64 limb arithmetic) vs witness relation checked by TLC; all boundary behaviours replayed",
             text="The prover's guards in code order are a spec operator over 4x16-bit-limb u64 arithmetic; TLC checks `proof <=> witness valid` over boundary values/promises at every position and every witness deviation, and the library is run on each.",
             ref="§6 C06"),
 "C07": dict(tech="TLA+ API machine: promise substitution at verification, TLC-enumerated, replayed",
             text="Per position of an aggregate every promise class is substituted at verification time; the spec predicts acceptance only for value-wise equal vectors and refusal of promises not fitting the bit length; replayed on both groups.",
             ref="§6 C07"),
 "C08": dict(tech="TLC adversary game over formal weights (MC_Weights) and weight-seed binding (MC_Transcript); TLC trace validation of weight provenance and homogeneity in 252-bit arithmetic (TraceVerify), response-perturbation pairs",
             text="(MC) an adaptive-adversary game with weights as formal indeterminates: no cancellation under the code's policy, attacks found for 'blind to a response' and 'constant' policies; the weight seed contains r1, s1 and every d1. (TV) on recorded multi-member batches TLC checks: member i's contribution to the weight transcript is an output of a generator built on i's transcript after all its responses were absorbed, the weight generator is built after every member contributed, w_i (defined as minus the scalar on B_i) is non-zero, is the reduction of a weight-generator output, distinct per member, and multiplies every scalar of proof i. Changing any response scalar changes the contribution and every weight.",
             ref="§6 C08"),
 "C09": dict(tech="TLA+ API machine mask-result pattern (MaskOf) checked by TLC; behaviours replayed with exact mask comparison",
             text="Seeds x modes x batch compositions; the predicted per-member result (none / exact mask) is compared with the library's output component-wise.",
             ref="§6 C09"),
 "C10": dict(tech="TLA+ API machine: verdict independent of seed and mode, RecoverOnly masks; TLC-enumerated, replayed",
             text="valid and invalid proofs x {no seed, right seed, wrong seed} x three modes; predicted verdicts and mask classes (exact / other / none) compared on both groups.",
             ref="§6 C10"),
 "C13": dict(tech="TLC term model (freshness, generator sees whole transcript); TLC trace validation of the prover in 252-bit arithmetic with nonces read off the proof points (TraceProve)",
             text="The prover runs over the free-module group, so alpha_k, dL/dR, d, eta are coordinates of A, L_j/R_j, A1, B and r, s follow from r1, s1; TLC checks they are non-zero, pairwise distinct, each the reduction of an output of a generator built after the latest absorption preceding its use (unseeded) or exactly the reference seed derivation at (label, j, k) (seeded; r and s still from the generator), and that different runs share none - for all degrees 1..6.",
             ref="§6 C13"),
 "C14": dict(tech="TLC term model under RNG fault models (negatives: no witness rekey, no rebuild); TLC trace validation of generator keying and of run pairs under faulty external RNGs (TraceProve CrossFresh)",
             text="(MC) with the external RNG all-zero / constant / period-2 / replayed, runs differing in any one input - the witness alone included - share no nonce term and identical runs reproduce; dropping the witness rekey or the rebuild is caught. (TV) in recorded prover runs every generator that produced output was rekeyed with the serialised witness and finalised with external bytes, and is rebuilt after each absorption group; pairs of runs with identical blindings and the same faulty RNG stream, identical or differing in one input, are validated by TLC: identical => same nonces, different => disjoint.",
             ref="§6 C14"),
 "C12": dict(tech="TLA+ API machine: capacity irrelevant to validity; all capacity pairs and mixed-capacity batches replayed",
             text="All pairs (prover capacity, verifier capacity) >= m up to 32 and mixed-capacity batches are behaviours of the spec predicted to accept; replayed on both groups.",
             ref="§6 C12"),
}

def main():
    checks = []
    for pid in ALL:
        if pid not in T:
            continue
        t = T[pid]
        checks.append({
            "property_id": pid,
            "quick_cmd": f"./check {pid} --tier quick",
            "thorough_cmd": f"./check {pid} --tier thorough",
            "evidence_file": f"/verif/evidence/{pid}.json",
            "replay_cmd_template": f"./check {pid} --replay {{path}}",
            "engine": "tla-conformance",
            "level_claimed": {"category": "model_checking", "text": t["text"], "design_ref": "DESIGN.md " + t["ref"]},
            "level_note": TRUST,
            "technique": t["tech"],
        })
    na = [{"property_id": p, "reason": "check not built yet (work in progress; see DESIGN.md section 12)"} for p in ALL if p not in T]
    m = {
        "version": 1,
        "setup_cmd": "./setup.sh",
        "hooks": {"guard": "--cfg bpp_verif",
                  "enable": "harness/.cargo/config.toml passes --cfg bpp_verif to every crate of the harness build; no source hook in /repo is used (all observation is through the library's own generic seams: curve traits, caller-supplied transcript and RNG, global allocator)",
                  "baseline_off_cmd": "cd /repo && cargo test --workspace --no-fail-fast --offline",
                  "source_commits": [], "add_only": True},
        "engines": [{"name": "tla-conformance", "path": "/verif/check", "serves_properties": [c["property_id"] for c in checks],
                     "kind_free_text": "explicit TLA+ specification (/verif/spec) model-checked by TLC; TLC-generated behaviours replayed on the library and library traces validated by TLC (harness in /verif/harness)"}],
        "checks": checks,
        "notes": "Genuine defects found and repaired are listed in known_findings.json ('fixed'). See DESIGN.md.",
        "not_applicable": na,
    }
    json.dump(m, open(os.path.join(VERIF, "MANIFEST.json"), "w"), indent=1)
    print("checks:", [c["property_id"] for c in checks], "not_applicable:", [n["property_id"] for n in na])

if __name__ == "__main__":
    main()
