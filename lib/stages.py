"""Check stages. Each stage returns a Stage result: measured coverage numbers, samples, violations."""
import json, os, random, time
import vlib


class StageResult:
    def __init__(self, name):
        self.name = name
        self.states = 0
        self.transitions = 0
        self.evaluations = 0          # executions on the real library / events validated
        self.traces = 0               # TLC behaviours replayed on the impl + impl traces validated by TLC
        self.distinct = set()         # digests of distinct non-trivial cases
        self.samples = []
        self.violations = []          # dicts: {message, replay:{...}}
        self.notes = {}
        self.negatives = []           # [{name, expected, violated}]
        self.wall = 0.0

    def add_violation(self, message, replay):
        self.violations.append({"message": message, "replay": replay})


API_INVARIANTS = "C01 C03 C05 C06 C06b C10 C16 Emit"


def api_cfg(family, tier, loop=True, whole=True, maxbatch=2, emit=True):
    inv = API_INVARIANTS if emit else API_INVARIANTS.replace(" Emit", "")
    return f'''CONSTANTS
  Family = "{family}"
  Tier = "{tier}"
  MaxBatch = {maxbatch}
  LoopAllChunks = {"TRUE" if loop else "FALSE"}
  WholeBatchConsistency = {"TRUE" if whole else "FALSE"}
SPECIFICATION Spec
INVARIANTS {inv}
CHECK_DEADLOCK FALSE
'''


def scenario_class(s):
    """What makes two scenarios distinct: everything the specification chose."""
    return vlib.digest(s["sc"])


def nontrivial(s):
    """A scenario is trivial if it is a single honest default member verified alone in the default mode."""
    sc = s["sc"]
    if len(sc["members"]) != 1:
        return True
    m = sc["members"][0]
    return not (m["mut"]["kind"] == "none" and m["wit"]["kind"] == "ok" and m["n"] == 8 and m["m"] == 1 and m["t"] == 1
                and sc["mode"] == "VerifyOnly" and m["seed"] == 0)


def api_stage(prop, family, tier, seed, groups=("fm", "rist"), scale=None, scale_min=0, limit=None, workers=8, sample_rate=1.0,
              negative=None, filter_fn=None):
    """TLC model-checks BPPApi over `family`, prints every behaviour; the harness replays all of them on the library."""
    st = StageResult("api:" + family)
    t0 = time.time()
    wd = vlib.workdir(f"{prop}_api_{family}")
    r = vlib.run_tlc("MC_Api", api_cfg(family, tier), wd, workers=workers, timeout=3000)
    if not r["ok"]:
        if r["violated"]:
            # the specification itself violates its own property: a modelling error, never blamed on the code
            raise vlib.ToolError(f"MC_Api[{family}] violates {r['violated']} on the specification itself:\n" + r["out"][-3000:])
        raise vlib.ToolError(f"TLC failed on MC_Api[{family}] (rc={r['rc']}):\n" + r["out"][-3000:])
    st.states += r["distinct"]
    st.transitions += r["generated"]
    scen = vlib.replay_lines(r["out"])
    if filter_fn:
        scen = [s for s in scen if filter_fn(s)]
    if not scen:
        raise vlib.ToolError(f"MC_Api[{family}] produced no behaviours")
    rng = random.Random(seed)
    scen.sort(key=lambda s: json.dumps(s, sort_keys=True))
    if sample_rate < 1.0:
        scen = [s for s in scen if rng.random() < sample_rate] or scen[:1]
    if limit and len(scen) > limit:
        scen = rng.sample(scen, limit)
    path = os.path.join(wd, "scen.ndjson")
    with open(path, "w") as fh:
        for s in scen:
            fh.write(json.dumps(s) + "\n")
    for s in scen:
        if nontrivial(s):
            st.distinct.add(scenario_class(s))
    st.samples += [{"scenario": scen[i]["sc"], "predicted": scen[i]["expect"]} for i in sorted(rng.sample(range(len(scen)), min(2, len(scen))))]
    st.notes["scenarios"] = len(scen)
    st.notes["outcome_classes"] = {}
    for g in groups:
        args = ["run", "--scen", path, "--group", g, "--seed", str(seed)]
        if scale:
            args += ["--scale", scale, "--scale-min", str(scale_min)]
        out = json.loads(vlib.run_harness(args, timeout=3000))
        st.evaluations += out["executed"]
        st.traces += out["executed"]
        st.notes["outcome_classes"][g] = out["classes"]
        for mm in out["mismatches"]:
            if mm["message"].startswith("HARNESS"):
                raise vlib.ToolError(f"harness could not build scenario {mm['index']} of {family}: {mm['message']}")
            st.add_violation(f"[{family}/{g}] {mm['message']}",
                             {"kind": "api", "family": family, "group": g, "seed": mm["seed"], "scale": mm["scale"], "index": mm["index"],
                              "scenario": mm["scenario"], "message": mm["message"]})
    # non-vacuity: the seeded specification bug must be caught by TLC
    if negative:
        for neg in negative:
            wdn = vlib.workdir(f"{prop}_neg_{neg['name']}")
            rn = vlib.run_tlc("MC_Api", api_cfg(family, tier, loop=neg.get("loop", True), whole=neg.get("whole", True), emit=False), wdn,
                              workers=workers, timeout=1200)
            st.negatives.append({"name": neg["name"], "expected": neg["expect"], "violated": rn["violated"]})
            if neg["expect"] not in rn["violated"]:
                raise vlib.ToolError(f"negative configuration {neg['name']} was not caught by TLC (vacuous invariant?)")
    st.wall = time.time() - t0
    return st


def replay_api(rep):
    """Re-execute one recorded API violation."""
    wd = vlib.workdir("replay")
    path = os.path.join(wd, "scen.ndjson")
    with open(path, "w") as fh:
        fh.write(json.dumps(rep["scenario"]) + "\n")
    args = ["run", "--scen", path, "--group", rep["group"], "--seed", str(rep["seed"]), "--first-index", str(rep["index"])]
    if rep.get("scale"):
        args += ["--scale", rep["scale"], "--scale-min", "0"]
    out = json.loads(vlib.run_harness(args))
    return out["mismatches"]
