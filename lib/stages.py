"""Check stages. Each stage returns a Stage result: measured coverage numbers, samples, violations."""
import json, os, random, time
import vlib


class StageResult:
    def __init__(self, name):
        self.name = name
        self.states = 0
        self.transitions = 0
        self.evaluations = 0          # executions on the real library / events validated
        self.traces = 0               # TLC behaviours replayed on the impl + impl traces validated by TLC
        self.distinct = set()         # digests of distinct non-trivial cases
        self.samples = []
        self.violations = []          # dicts: {message, replay:{...}}
        self.notes = {}
        self.negatives = []           # [{name, expected, violated}]
        self.wall = 0.0

    def add_violation(self, message, replay):
        self.violations.append({"message": message, "replay": replay})


API_INVARIANTS = "C01 C03 C05 C06 C06b C10 C16 Emit"


def api_cfg(family, tier, loop=True, whole=True, maxbatch=2, emit=True):
    inv = API_INVARIANTS if emit else API_INVARIANTS.replace(" Emit", "")
    return f'''CONSTANTS
  Family = "{family}"
  Tier = "{tier}"
  MaxBatch = {maxbatch}
  LoopAllChunks = {"TRUE" if loop else "FALSE"}
  WholeBatchConsistency = {"TRUE" if whole else "FALSE"}
SPECIFICATION Spec
INVARIANTS {inv}
CHECK_DEADLOCK FALSE
'''


def scenario_class(s):
    """What makes two scenarios distinct: everything the specification chose."""
    return vlib.digest(s["sc"])


def nontrivial(s):
    """A scenario is trivial if it is a single honest default member verified alone in the default mode."""
    sc = s["sc"]
    if len(sc["members"]) != 1:
        return True
    m = sc["members"][0]
    return not (m["mut"]["kind"] == "none" and m["wit"]["kind"] == "ok" and m["n"] == 8 and m["m"] == 1 and m["t"] == 1
                and sc["mode"] == "VerifyOnly" and m["seed"] == 0)


_FAMILY = {}


def family_behaviours(family, tier, wd, workers=8):
    """TLC's exhaustive run of MC_Api over one family (model checking + one REPLAY line per behaviour); within one check the
    same family is enumerated once and the behaviours reused by the stages that replay or sample them."""
    key = (family, tier)
    if key not in _FAMILY:
        _FAMILY[key] = vlib.run_tlc("MC_Api", api_cfg(family, tier), wd, workers=workers, timeout=3000)
    return _FAMILY[key]


def api_stage(prop, family, tier, seed, groups=("fm", "rist"), scale=None, scale_min=0, limit=None, workers=8, sample_rate=1.0,
              negative=None, filter_fn=None, profile="release", must_fn=None):
    """TLC model-checks BPPApi over `family`, prints every behaviour; the harness replays all of them on the library."""
    st = StageResult("api:" + family)
    t0 = time.time()
    # (one work directory per distinct stage: stages of one check may run side by side)
    wd = vlib.workdir(f"{prop}_api_{family}" + (f"_x{scale.replace(':', '_')}" if scale else "") + ("" if profile == "release" else "_" + profile)
                      + ("" if tuple(groups) == ("fm", "rist") else "_" + "_".join(groups)))
    r = family_behaviours(family, tier, wd, workers)
    if not r["ok"]:
        if r["violated"]:
            # the specification itself violates its own property: a modelling error, never blamed on the code
            raise vlib.ToolError(f"MC_Api[{family}] violates {r['violated']} on the specification itself:\n" + r["out"][-3000:])
        raise vlib.ToolError(f"TLC failed on MC_Api[{family}] (rc={r['rc']}):\n" + r["out"][-3000:])
    st.states += r["distinct"]
    st.transitions += r["generated"]
    scen = vlib.replay_lines(r["out"])
    if filter_fn:
        scen = [s for s in scen if filter_fn(s)]
    if not scen:
        raise vlib.ToolError(f"MC_Api[{family}] produced no behaviours")
    rng = random.Random(seed)
    scen.sort(key=lambda s: json.dumps(s, sort_keys=True))
    if sample_rate < 1.0:
        scen = [s for s in scen if rng.random() < sample_rate] or scen[:1]
    if limit and len(scen) > limit:
        must = [s for s in scen if must_fn and must_fn(s)]
        rest = [s for s in scen if not (must_fn and must_fn(s))]
        scen = must + rng.sample(rest, max(0, min(len(rest), limit - len(must))))
    path = os.path.join(wd, "scen.ndjson")
    with open(path, "w") as fh:
        for s in scen:
            fh.write(json.dumps(s) + "\n")
    for s in scen:
        if nontrivial(s):
            st.distinct.add(scenario_class(s))
    st.samples += [{"scenario": scen[i]["sc"], "predicted": scen[i]["expect"]} for i in sorted(rng.sample(range(len(scen)), min(2, len(scen))))]
    st.notes["scenarios"] = len(scen)
    st.notes["outcome_classes"] = {}
    # the scenarios are executed in shards, several harness processes side by side (numbering stays global: the randomness a
    # scenario uses is derived from its index)
    from concurrent.futures import ThreadPoolExecutor
    nsh = max(1, min(6, (len(scen) + 249) // 250))
    bounds = [(len(scen) * k // nsh, len(scen) * (k + 1) // nsh) for k in range(nsh)]
    shard_paths = []
    for k, (lo, hi) in enumerate(bounds):
        sp_ = os.path.join(wd, f"scen_{k}.ndjson")
        with open(sp_, "w") as fh:
            for s_ in scen[lo:hi]:
                fh.write(json.dumps(s_) + "\n")
        shard_paths.append(sp_)

    def run_shard(job):
        g, k = job
        lo, hi = bounds[k]
        args = ["run", "--scen", shard_paths[k], "--group", g, "--seed", str(seed), "--first-index", str(lo)]
        if scale:
            args += ["--scale", scale, "--scale-min", str(scale_min)]
        # the code under test may take the whole process down (abort on a huge allocation, stack overflow, endless loop caught
        # by the watchdog): that scenario is a violation, the rest is executed after it
        prog = os.path.join(wd, f"progress_{g}_{k}")
        skip = 0
        out = {"executed": 0, "classes": {}, "mismatches": []}
        for _attempt in range(8):
            try:
                part = json.loads(vlib.run_harness(args + ["--progress", prog, "--skip", str(skip)], timeout=3000, profile=profile, died_ok=True))
                out["executed"] += part["executed"]
                for k_, v_ in part["classes"].items():
                    out["classes"][k_] = out["classes"].get(k_, 0) + v_
                out["mismatches"] += part["mismatches"]
                break
            except vlib.HarnessDied as e:
                idx = int(open(prog).read().strip()) if os.path.exists(prog) else lo + skip
                what = "did not return (watchdog)" if e.rc == 3 else f"took the process down (exit status {e.rc})"
                out["mismatches"].append({"index": idx, "group": g, "seed": seed, "scale": scale, "scenario": scen[idx] if idx < len(scen) else {"sc": {"members": []}, "expect": {}},
                                          "message": f"panic: the call {what}: {e.stderr.strip()[-200:]}"})
                out["executed"] += idx - lo - skip + 1
                skip = idx - lo + 1
                if lo + skip >= hi:
                    break
        return out

    jobs = [(g, k) for g in groups for k in range(nsh)]
    with ThreadPoolExecutor(max_workers=8) as ex:
        results = list(ex.map(run_shard, jobs))
    for g in groups:
        out = {"executed": 0, "classes": {}, "mismatches": []}
        for (g2, k), part in zip(jobs, results):
            if g2 != g:
                continue
            out["executed"] += part["executed"]
            for k_, v_ in part["classes"].items():
                out["classes"][k_] = out["classes"].get(k_, 0) + v_
            out["mismatches"] += part["mismatches"]
        st.evaluations += out["executed"]
        st.traces += out["executed"]
        st.notes["outcome_classes"][g] = out["classes"]
        st.notes["profile"] = profile
        for mm in out["mismatches"]:
            if mm["message"].startswith("HARNESS"):
                raise vlib.ToolError(f"harness could not build scenario {mm['index']} of {family}: {mm['message']}")
            rep = {"kind": "api", "family": family, "group": g, "seed": mm["seed"], "scale": mm["scale"], "index": mm["index"], "profile": profile,
                   "scenario": mm["scenario"], "message": mm["message"]}
            mbs = mm["scenario"]["sc"]["members"]
            if mm["message"].startswith("ROUNDTRIP") and len(mbs) == 1 and mbs[0]["n"] * mbs[0]["m"] == 1:
                rep["finding_key"] = "C15-roundtrip-nm1"
            st.add_violation(f"[{family}/{g}] {mm['message']}", rep)
    # non-vacuity: the seeded specification bug must be caught by TLC
    if negative:
        for neg in negative:
            wdn = vlib.workdir(f"{prop}_neg_{neg['name']}")
            rn = vlib.run_tlc("MC_Api", api_cfg(family, tier, loop=neg.get("loop", True), whole=neg.get("whole", True), emit=False), wdn,
                              workers=workers, timeout=1200)
            st.negatives.append({"name": neg["name"], "expected": neg["expect"], "violated": rn["violated"]})
            if neg["expect"] not in rn["violated"]:
                raise vlib.ToolError(f"negative configuration {neg['name']} was not caught by TLC (vacuous invariant?)")
    st.wall = time.time() - t0
    return st


def replay_api(rep):
    """Re-execute one recorded API violation."""
    wd = vlib.workdir("replay")
    path = os.path.join(wd, "scen.ndjson")
    with open(path, "w") as fh:
        fh.write(json.dumps(rep["scenario"]) + "\n")
    args = ["run", "--scen", path, "--group", rep["group"], "--seed", str(rep["seed"]), "--first-index", str(rep["index"])]
    if rep.get("scale"):
        args += ["--scale", rep["scale"], "--scale-min", "0"]
    out = json.loads(vlib.run_harness(args, profile=rep.get("profile", "release")))
    return out["mismatches"]


# ---------------------------------------------------------------------------------------------------
# impl -> spec: trace validation
# ---------------------------------------------------------------------------------------------------
TRACE_JAVA = ["-Xss1g", "-XX:+UseSerialGC", "-Xmx3g", "-Dtlc2.tool.queue.IStateQueue=StateDeque"]


def trace_cfg(consts):
    if "CheckLayout" in consts and "WeightsOnly" not in consts:      # TraceVerify's optional mode
        consts = dict(consts, WeightsOnly="FALSE")
    if "CrossFresh" in consts and "NoncesOnly" not in consts:        # TraceProve's optional mode
        consts = dict(consts, NoncesOnly="FALSE")
    c = "CONSTANTS\n" + "".join(f"  {k} = {v}\n" for k, v in consts.items())
    return c + "SPECIFICATION Spec\nCONSTRAINT Progress\nPOSTCONDITION Accepted\nCHECK_DEADLOCK FALSE\n"


def _tlc_trace(module, consts, trace_path, wd, timeout):
    r = vlib.run_tlc(module, trace_cfg(consts), wd, workers=1, timeout=timeout, java_opts=TRACE_JAVA, env_extra={"TRACE": trace_path})
    rej = None
    for ln in vlib.tagged_lines(r["out"], "REJECTED"):
        rej = ln
    return r, rej


def validate_trace_file(module, consts, trace_path, name, timeout=1500):
    """Validate one ndjson trace; returns (states, events_consumed, rejections[list of (scen index, text)])."""
    import re
    events = [json.loads(x) for x in open(trace_path)]
    rejections = []
    states = 0
    consumed = 0
    rounds = 0
    cur = events
    while cur and rounds < 6:
        rounds += 1
        wd = vlib.workdir(name + f"_r{rounds}")
        p = os.path.join(wd, "trace.ndjson")
        with open(p, "w") as fh:
            for e in cur:
                fh.write(json.dumps(e) + "\n")
        r, rej = _tlc_trace(module, consts, p, wd, timeout)
        states += r.get("distinct", 0)
        if rej is None:
            if not r["ok"]:
                raise vlib.ToolError(f"TLC failed validating {name} (rc={r['rc']}):\n" + r["out"][-3000:])
            consumed += len(cur)
            break
        m = re.match(r"\s*(\d+),", rej)
        pos = int(m.group(1))
        if pos > len(cur):
            raise vlib.ToolError("trace ended inside a call: " + rej)
        bad = cur[pos - 1]["scen"]
        rejections.append((bad, f"trace rejected at event {pos} ({cur[pos-1]['ev']}) of scenario {bad}", cur[pos - 1]))
        consumed += pos - 1
        cur = [e for e in cur if e["scen"] > bad]
    return states, consumed, rejections


def trace_stage(prop, name, scen, seed, module="TraceVerify", consts=None, calls="verify", arith=True, parallel=10, per_file=6, timeout=1500, nonces=False):
    """Run scenarios on the free-module group with all instruments on, validate the recorded traces with TLC."""
    from concurrent.futures import ThreadPoolExecutor
    st = StageResult(f"trace:{module}:{name}")
    t0 = time.time()
    consts = consts or {"Strict": "FALSE", "CheckArith": "TRUE" if arith else "FALSE", "CheckLayout": "FALSE"}
    wd = vlib.workdir(f"{prop}_trace_{name}")
    sp = os.path.join(wd, "scen.ndjson")
    with open(sp, "w") as fh:
        for s in scen:
            fh.write(json.dumps(s) + "\n")
    tp = os.path.join(wd, "trace.ndjson")
    args = ["trace", "--scen", sp, "--out", tp, "--seed", str(seed), "--calls", calls] + (["--nonces"] if nonces else ["--arith"] if arith else [])
    info = json.loads(vlib.run_harness(args))
    st.notes["recorded"] = info
    # split by scenario groups so files validate in parallel
    groups = {}
    kinds = {}
    for line in open(tp):
        e = json.loads(line)
        groups.setdefault(e["scen"] // per_file, []).append(line)
        k = e["ev"] + ("+arith" if (e["ev"] == "VMSM" and e.get("arith")) or (e["ev"] == "PCall" and e.get("arith")) else "")
        kinds[k] = kinds.get(k, 0) + 1
    # how much of the trace is the substantive kind (final checks with scalars, prover calls with coordinates)
    st.notes["event_kinds"] = {k: v for k, v in kinds.items() if k.startswith(("V", "P"))}
    files = []
    for g, lines in sorted(groups.items()):
        fp = os.path.join(wd, f"part{g}.ndjson")
        with open(fp, "w") as fh:
            fh.writelines(lines)
        files.append((g, fp))

    def work(item):
        g, fp = item
        return validate_trace_file(module, consts, fp, f"{prop}_tv_{name}_{g}", timeout)

    with ThreadPoolExecutor(max_workers=parallel) as ex:
        results = list(ex.map(work, files))
    for (g, fp), (states, consumed, rejs) in zip(files, results):
        st.states += states
        st.transitions += states
        st.evaluations += consumed
        for bad, text, ev in rejs:
            st.add_violation(f"[{module}/{name}] {text}",
                             {"kind": "trace", "module": module, "consts": consts, "calls": calls, "arith": arith, "nonces": nonces, "seed": seed, "index": bad,
                              "scenario": scen[bad], "message": text})
    st.traces += info["calls"] - len(st.violations)
    for s in scen:
        st.distinct.add(scenario_class(s))
    st.samples.append({"trace_of_scenario": scen[0]["sc"], "events_first_file": sum(1 for _ in open(files[0][1])) if files else 0})
    st.notes["constants"] = consts
    st.wall = time.time() - t0
    return st


def replay_trace(rep):
    wd = vlib.workdir("replay_trace")
    sp = os.path.join(wd, "scen.ndjson")
    with open(sp, "w") as fh:
        fh.write(json.dumps(rep["scenario"]) + "\n")
    tp = os.path.join(wd, "trace.ndjson")
    args = ["trace", "--scen", sp, "--out", tp, "--seed", str(rep["seed"]), "--calls", rep["calls"], "--first-index", str(rep["index"])] + (["--nonces"] if rep.get("nonces") else ["--arith"] if rep["arith"] else [])
    vlib.run_harness(args)
    _, _, rejs = validate_trace_file(rep["module"], rep["consts"], tp, "replay_tv")
    return [r[1] for r in rejs]


def long_batch_stage(prop, name, count, seed, weights_only=True, mode="VerifyOnly", timeout=3000):
    """An honest batch of `count` DISTINCT small proofs (beyond what TLC enumerates as scenarios; above 256 members the
    recorded call is split into one specification call per chunk), validated by TLC: every transcript operation of every
    member, the weight transcript and generator of every chunk and - weights_only - that the weights, read off the final
    check, are non-zero outputs of that chunk's generator and pairwise distinct; otherwise the whole final check."""
    def member(i):
        m = 2 if i % 5 == 3 else 1
        sd = 1 if (mode != "VerifyOnly" and m == 1 and i % 3 == 0) else 0
        return {"n": 2, "v": {"n": 2, "t": 1, "cap": m, "seed": sd, "label": i % 2, "proms": [[] for _ in range(m)], "pgH": 0, "pgG": 0, "commit": "same", "cj": 0},
                "t": 1, "m": m, "cap": m, "seed": sd, "label": i % 2, "rng": "chacha", "vals": [[(i + j) % 4, 0, 0, 0] for j in range(m)], "proms": [[] for _ in range(m)],
                "wit": {"j": 0, "kind": "ok"}, "mut": {"j": 0, "kind": "none", "slot": "none", "how": "none"}, "bseed": 0, "rvar": i, "zb": 0, "ppg": 0, "wshift": 0}
    sc = {"family": "long", "sc": {"members": [member(i) for i in range(count)], "mode": mode, "skew": [0, 0, 0], "viabytes": False, "fill": [], "pair": False,
                                   "first": 0, "wdiff": False, "samecommit": False},
          "expect": {"prove": "ok", "verify": "ok", "masks": ["none"] * count}, "distinct": True}
    consts = {"Strict": "FALSE", "CheckArith": "FALSE" if weights_only else "TRUE", "CheckLayout": "FALSE", "WeightsOnly": "TRUE" if weights_only else "FALSE"}
    st = trace_stage(prop, name, [sc], seed, module="TraceVerify", consts=consts, calls="verify", arith=True, timeout=timeout)
    st.samples = [{"long_batch": {"members": count, "chunks": (count + 255) // 256, "mode": mode, "weights_only": weights_only}}]
    return st


def pick_scenarios(family, tier, seed, pred, count, prop="x", must=None, must_count=2):
    """Behaviours of MC_Api[family] satisfying pred, a seeded sample of `count` (of which up to `must_count` satisfy `must`)."""
    wd = vlib.workdir(f"{prop}_pick_{family}")
    r = family_behaviours(family, tier, wd, 8)
    if not r["ok"]:
        raise vlib.ToolError(f"TLC failed on MC_Api[{family}]:\n" + r["out"][-2000:])
    scen = [s for s in vlib.replay_lines(r["out"]) if pred(s)]
    scen.sort(key=lambda s: json.dumps(s, sort_keys=True))
    rng = random.Random(seed * 7919 + 13)
    if len(scen) > count:
        forced = []
        if must:
            cand = [s for s in scen if must(s)]
            forced = rng.sample(cand, min(len(cand), must_count))
        rest = [s for s in scen if s not in forced]
        scen = forced + rng.sample(rest, max(0, count - len(forced)))
    return scen, r


# ---------------------------------------------------------------------------------------------------
# design-level model checking of the algebra
# ---------------------------------------------------------------------------------------------------
def algebra_cfg(p, n, m, t, mode, bug="none"):
    return (f'CONSTANTS P = {p} N = {n} M = {m} T = {t} Bug = "{bug}" Mode = "{mode}"\n'
            "SPECIFICATION Spec\nINVARIANTS T0 T1 T2 T3\nCHECK_DEADLOCK FALSE\n")


ALG_JAVA = ["-XX:+UseParallelGC", "-XX:ParallelGCThreads=4", "-Xmx8g"]


def algebra_stage(prop, configs, negatives=(), workers=8, timeout=3000):
    """TLC checks T0..T3 of MC_Algebra exhaustively over GF(p) for each config (p, n, m, t, mode)."""
    st = StageResult("mc:algebra")
    t0 = time.time()
    for (p, n, m, t, mode) in configs:
        wd = vlib.workdir(f"{prop}_alg_{p}_{n}_{m}_{t}_{mode}")
        r = vlib.run_tlc("MC_Algebra", algebra_cfg(p, n, m, t, mode), wd, workers=workers, timeout=timeout, java_opts=ALG_JAVA)
        if not r["ok"]:
            raise vlib.ToolError(f"MC_Algebra p={p} n={n} m={m} t={t} {mode}: specification-level failure {r['violated']}\n" + r["out"][-2500:])
        st.states += r["distinct"]
        st.transitions += r["generated"]
        st.samples.append({"mc_algebra": {"p": p, "n": n, "m": m, "t": t, "mode": mode, "distinct_states": r["distinct"]}})
    for (p, n, m, t, mode, bug, inv) in negatives:
        wd = vlib.workdir(f"{prop}_algneg_{bug}")
        r = vlib.run_tlc("MC_Algebra", algebra_cfg(p, n, m, t, mode, bug), wd, workers=workers, timeout=timeout, java_opts=ALG_JAVA)
        st.negatives.append({"name": bug, "expected": inv, "violated": r["violated"]})
        if inv not in r["violated"]:
            raise vlib.ToolError(f"seeded specification bug {bug} was not caught by TLC ({inv} vacuous?)")
    st.notes["configs"] = [list(c) for c in configs]
    st.wall = time.time() - t0
    return st


def simple_mc_stage(prop, module, cfg_text, negatives=(), workers=4, name=None, timeout=1200, java_opts=None):
    """TLC model-checks spec/<module>.tla with cfg_text; each negative (label, cfg_text, invariant) must be violated."""
    st = StageResult("mc:" + (name or module))
    t0 = time.time()
    wd = vlib.workdir(f"{prop}_mc_{module}")
    r = vlib.run_tlc(module, cfg_text, wd, workers=workers, timeout=timeout, java_opts=java_opts)
    if not r["ok"]:
        raise vlib.ToolError(f"{module}: specification-level failure {r['violated']}\n" + r["out"][-2500:])
    st.states += r["distinct"]
    st.transitions += r["generated"]
    st.samples.append({"model_checked": module, "distinct_states": r["distinct"], "config": cfg_text.splitlines()[:3]})
    for (label, ncfg, inv) in negatives:
        wdn = vlib.workdir(f"{prop}_mcneg_{module}_{label}")
        rn = vlib.run_tlc(module, ncfg, wdn, workers=workers, timeout=timeout, java_opts=java_opts)
        st.negatives.append({"name": label, "expected": inv, "violated": rn["violated"]})
        if inv not in rn["violated"]:
            raise vlib.ToolError(f"{module}: seeded specification bug {label} was not caught by TLC ({inv} vacuous?)\n" + rn["out"][-1500:])
    st.wall = time.time() - t0
    return st


def transcript_cfg(rekey=True, rebuild=True, omit="none", k=2, t=2, m=2):
    return (f'CONSTANTS Rekey = {"TRUE" if rekey else "FALSE"} Rebuild = {"TRUE" if rebuild else "FALSE"} Omit = "{omit}" '
            f"KRounds = {k} TDeg = {t} MAgg = {m}\nSPECIFICATION Spec\nINVARIANTS Binding Hedged Fresh SeesAll WeightBound\nCHECK_DEADLOCK FALSE\n")


def transcript_stage(prop, tier, omits=("H", "G", "N", "T", "M", "Ci", "vi - minimum_value"), extra_negs=()):
    negs = [("omit_" + o.replace(" ", "_"), transcript_cfg(omit=o), "Binding") for o in omits] + list(extra_negs)
    k, t, m = (2, 2, 2) if tier == "quick" else (3, 3, 2)
    return simple_mc_stage(prop, "MC_Transcript", transcript_cfg(k=k, t=t, m=m), negs)


def weights_stage(prop):
    cfg = lambda pol: f'CONSTANTS Policy = "{pol}"\nSPECIFICATION Spec\nINVARIANT NoCancel\nCHECK_DEADLOCK FALSE\n'
    return simple_mc_stage(prop, "MC_Weights", cfg("bound"), [("weights_blind_to_response", cfg("nod1"), "NoCancel"), ("constant_weights", cfg("const"), "NoCancel")])



# ---------------------------------------------------------------------------------------------------
# one TLC state = one call (constructors, decoder)
# ---------------------------------------------------------------------------------------------------
def cases_stage(prop, module, tier, seed, groups=("fm", "rist"), invariants="", workers=8, limit=None, consts="", negative=None):
    """negative = (constant assignments of a seeded specification defect, invariant it must violate)"""
    st = StageResult("cases:" + module)
    t0 = time.time()
    wd = vlib.workdir(f"{prop}_cases_{module}")
    cfg = f'CONSTANTS Tier = "{tier}" {consts}\nSPECIFICATION Spec\nINVARIANTS {invariants} Emit\nCHECK_DEADLOCK FALSE\n'
    r = vlib.run_tlc(module, cfg, wd, workers=workers, timeout=3000)
    if not r["ok"]:
        raise vlib.ToolError(f"{module}: specification-level failure {r['violated']}\n" + r["out"][-2500:])
    if negative:
        ncfg = f'CONSTANTS Tier = "{tier}" {negative[0]}\nSPECIFICATION Spec\nINVARIANTS {negative[1]}\nCHECK_DEADLOCK FALSE\n'
        rn = vlib.run_tlc(module, ncfg, vlib.workdir(f"{prop}_cases_{module}_neg"), workers=workers, timeout=3000)
        st.negatives.append({"name": negative[0].strip(), "expected": negative[1], "violated": rn["violated"]})
        if negative[1] not in rn["violated"]:
            raise vlib.ToolError(f"{module}: negative configuration {negative[0]} not caught")
    st.states += r["distinct"]
    st.transitions += r["generated"]
    cases = vlib.replay_lines(r["out"])
    cases.sort(key=lambda c: json.dumps(c, sort_keys=True))
    rng = random.Random(seed)
    if limit and len(cases) > limit:
        cases = rng.sample(cases, limit)
    path = os.path.join(wd, "cases.ndjson")
    with open(path, "w") as fh:
        for c in cases:
            fh.write(json.dumps(c) + "\n")
    for c in cases:
        st.distinct.add(vlib.digest(c))
    st.samples += [cases[i] for i in sorted(rng.sample(range(len(cases)), min(3, len(cases))))]
    st.notes["cases"] = len(cases)
    st.notes["outcome_classes"] = {}
    for g in groups:
        out = json.loads(vlib.run_harness(["cases", "--cases", path, "--group", g, "--seed", str(seed)], timeout=3000))
        st.evaluations += out["executed"]
        st.traces += out["executed"]
        st.notes["outcome_classes"][g] = out["classes"]
        for mm in out["mismatches"]:
            st.add_violation(f"[{module}/{g}] {mm['message']}", {"kind": "case", "group": g, "seed": mm["seed"], "index": mm["index"], "case": mm["case"], "message": mm["message"]})
    st.notes["exhaustive"] = limit is None
    st.wall = time.time() - t0
    return st


def replay_case(rep):
    wd = vlib.workdir("replay_case")
    path = os.path.join(wd, "cases.ndjson")
    with open(path, "w") as fh:
        fh.write(json.dumps(rep["case"]) + "\n")
    out = json.loads(vlib.run_harness(["cases", "--cases", path, "--group", rep["group"], "--seed", str(rep["seed"]), "--first-index", str(rep["index"])], profile=rep.get("profile", "release")))
    return out["mismatches"]



def raw_cases_stage(prop, name, cases, seed, groups=("fm", "rist"), profile="release"):
    """Cases generated by the driver itself (no prediction beyond 'a value or an error')."""
    st = StageResult("cases:" + name)
    t0 = time.time()
    wd = vlib.workdir(f"{prop}_raw_{name}")
    path = os.path.join(wd, "cases.ndjson")
    with open(path, "w") as fh:
        for c in cases:
            fh.write(json.dumps(c) + "\n")
    for c in cases:
        st.distinct.add(vlib.digest(c))
    st.samples += cases[:2]
    for g in groups:
        out = json.loads(vlib.run_harness(["cases", "--cases", path, "--group", g, "--seed", str(seed)], timeout=3000, profile=profile))
        st.evaluations += out["executed"]
        st.traces += out["executed"]
        for mm in out["mismatches"]:
            st.add_violation(f"[{name}/{g}] {mm['message']}", {"kind": "case", "group": g, "seed": mm["seed"], "index": mm["index"], "case": mm["case"], "message": mm["message"], "profile": profile})
    st.wall = time.time() - t0
    return st


def generators_stage(prop, tier, seed, threads=4):
    """TLC checks naming/layout of the generators and prints the derivation script; the harness executes it."""
    st = StageResult("mc+rp:generators")
    t0 = time.time()
    wd = vlib.workdir(f"{prop}_gens")
    cfg = "CONSTANTS MaxParty = 1024 MaxIdx = 64\nSPECIFICATION Spec\nINVARIANTS Injective MaskInjective Disjoint Layout CapIndep Emit\nCHECK_DEADLOCK FALSE\n"
    r = vlib.run_tlc("MC_Generators", cfg, wd, workers=2, timeout=900)
    if not r["ok"]:
        raise vlib.ToolError("MC_Generators failed: " + str(r["violated"]) + r["out"][-2000:])
    st.states += r["distinct"]
    st.transitions += r["generated"]
    script = vlib.replay_lines(r["out"])[0]
    sp = os.path.join(wd, "script.json")
    json.dump(script, open(sp, "w"))
    st.samples.append({"derivation_script": {"prefix": script["prefix"], "first_label": script["labels"][0], "mask_label_1": script["mask_labels"][0]}})
    for g in ("rist", "fm"):
        out = json.loads(vlib.run_harness(["gens", "--script", sp, "--group", g, "--seed", str(seed), "--threads", str(threads),
                                           "--maxcap", "64"], timeout=1800))
        st.evaluations += out["generators_checked"]
        st.traces += 1
        st.notes[g] = {"generators_checked": out["generators_checked"], "distinct_encodings": out["distinct_encodings"]}
        for i in range(out["distinct_encodings"]):
            pass
        st.distinct.update(f"{g}:{i}" for i in range(min(out["distinct_encodings"], 5000)))
        for mm in out["mismatches"]:
            st.add_violation(f"[generators/{g}] {mm}", {"kind": "gens", "group": g, "seed": seed, "message": mm})
    st.notes["exhaustive"] = "every (bits, capacity) with bits in {1..64}, capacity in {1..32}, both kinds, every party and index"
    st.wall = time.time() - t0
    return st


def replay_gens(rep):
    st = generators_stage("replay", "quick", rep["seed"])
    return [v["message"] for v in st.violations]


# ---------------------------------------------------------------------------------------------------
# memory (C20) and threads (C18)
# ---------------------------------------------------------------------------------------------------
def memory_stage(prop, tier, seed, profile):
    """Run the secret-handling scenarios with the tracing allocator armed; TLC validates every recorded release."""
    st = StageResult(f"trace:TraceMemory@{profile}")
    t0 = time.time()
    wd = vlib.workdir(f"{prop}_mem_{profile}")
    tp = os.path.join(wd, "trace.ndjson")
    info = json.loads(vlib.run_harness(["mem", "--out", tp, "--seed", str(seed)] + ([] if tier == "quick" else ["--full"]), profile=profile))
    st.notes["recorded"] = info
    events = [json.loads(x) for x in open(tp)]
    cfg = "SPECIFICATION Spec\nCONSTRAINT Progress\nPOSTCONDITION Accepted\nCHECK_DEADLOCK FALSE\n"
    cur = events
    rounds = 0
    while cur and rounds < 8:
        rounds += 1
        wdr = vlib.workdir(f"{prop}_tvmem_{profile}_{rounds}")
        p = os.path.join(wdr, "trace.ndjson")
        with open(p, "w") as fh:
            for e in cur:
                fh.write(json.dumps(e) + "\n")
        r = vlib.run_tlc("TraceMemory", cfg, wdr, workers=1, timeout=1500, java_opts=TRACE_JAVA, env_extra={"TRACE": p})
        st.states += r.get("distinct", 0)
        st.transitions += r.get("generated", 0)
        rej = vlib.tagged_lines(r["out"], "REJECTED")
        if not rej:
            if not r["ok"]:
                raise vlib.ToolError("TLC failed on TraceMemory:\n" + r["out"][-2000:])
            st.evaluations += len(cur)
            break
        import re
        pos = int(re.match(r"\s*(\d+),", rej[-1]).group(1))
        if pos > len(cur):
            raise vlib.ToolError("memory trace ended inside a scenario")
        bad = cur[pos - 1]
        arm = next((e for e in reversed(cur[:pos]) if e["ev"] == "Arm"), {"scenario": bad.get("what", "?")})
        what = f"{bad.get('size', '')}-byte block freed still holding {bad.get('taint')}" if bad["ev"] == "Free" else f"{bad['ev']}: {json.dumps(bad)[:200]}"
        st.add_violation(f"[TraceMemory/{profile}] during '{arm.get('scenario')}': {what}",
                         {"kind": "mem", "profile": profile, "seed": seed, "tier": tier, "scenario": arm.get("scenario"), "event": bad})
        st.evaluations += pos - 1
        cur = [e for e in cur if e["scen"] > bad["scen"]]
    st.traces += info["scenarios"] - len(st.violations)
    for e in events:
        if e["ev"] == "Arm":
            st.distinct.add(e["scenario"])
    st.samples.append({"scenario": next(e["scenario"] for e in events if e["ev"] == "Arm"), "events": len(events)})
    st.wall = time.time() - t0
    return st


def replay_mem(rep):
    st = memory_stage("replay", rep.get("tier", "quick"), rep["seed"], rep["profile"])
    return [v["message"] for v in st.violations]


def ref_panics(st, ref_lines, seed, tier):
    """Every call of the menu is one the library must answer with a value or an error: a panic when the call runs alone, in its own
    fresh process, is a violation by itself (and not a reference to compare other runs with)."""
    for ln in ref_lines.splitlines():
        e = json.loads(ln)
        if e.get("digest") == "panic":
            st.add_violation(f"[threads/reference] call {e['call']} panicked when run alone in a fresh process",
                             {"kind": "threads", "seed": seed, "tier": tier, "name": "reference", "event": e, "history": None})


def race_stage(prop, tier, seed, runs=2, race_threads=8):
    """Only the free-running part of the thread driver: N threads start together in a fresh process, first-use ONE never-used
    parameter object, run the whole call menu each in its own order and then the same verifying calls at the same instant; TLC
    (TraceThreads) accepts the recording only if every call returned what it returns when run alone (a panic is a result too)."""
    from concurrent.futures import ThreadPoolExecutor
    st = StageResult("rp+tv:races")
    t0 = time.time()
    wd = vlib.workdir(f"{prop}_races")
    q = tier == "quick"
    flood = ["--flood", "40000"]

    def ref(c):
        refp = os.path.join(wd, f"ref{c}.ndjson")
        vlib.run_harness(["threads", "--reference", str(c), "--out", refp] + flood)
        return open(refp).read()
    with ThreadPoolExecutor(max_workers=8) as ex:
        ref_lines = "".join(ex.map(ref, range(20)))
    ref_panics(st, ref_lines, seed, tier)
    tcfg = "SPECIFICATION Spec\nCONSTRAINT Progress\nPOSTCONDITION Accepted\nCHECK_DEADLOCK FALSE\n"
    for i in range(runs if q else runs * 5):
        rp = os.path.join(wd, f"race{i}.ndjson")
        vlib.run_harness(["threads", "--race", str(race_threads if i % 2 == 0 else 3 + i), "--run", str(i), "--out", rp] + flood, timeout=3000)
        wdr = vlib.workdir(f"{prop}_tvrace_{i}")
        p = os.path.join(wdr, "trace.ndjson")
        body = open(rp).read()
        with open(p, "w") as fh:
            fh.write(ref_lines + body)
        rr = vlib.run_tlc("TraceThreads", tcfg, wdr, workers=1, timeout=1500, java_opts=TRACE_JAVA, env_extra={"TRACE": p})
        st.states += rr.get("distinct", 0)
        st.transitions += rr.get("generated", 0)
        rej = vlib.tagged_lines(rr["out"], "REJECTED")
        if rej:
            import re
            pos = int(re.match(r"\s*(\d+),", rej[-1]).group(1))
            allev = [json.loads(x) for x in (ref_lines + body).splitlines()]
            bad = allev[pos - 1] if pos <= len(allev) else {}
            what = "panicked" if bad.get("digest") == "panic" else "returned a result different from the same call run alone"
            st.add_violation(f"[TraceThreads/race{i}] call {bad.get('call')} on thread {bad.get('th')} {what}",
                             {"kind": "threads", "seed": seed, "tier": tier, "name": f"race{i}", "event": bad, "history": None})
        else:
            if not rr["ok"]:
                raise vlib.ToolError("TLC failed on TraceThreads:\n" + rr["out"][-2000:])
            st.evaluations += body.count("\n")
            st.traces += 1
    st.samples.append({"races": runs if q else runs * 5, "threads": race_threads, "calls_per_thread": 25})
    st.wall = time.time() - t0
    return st


def threads_stage(prop, tier, seed, races=6, race_threads=8):
    """Reference process, TLC-generated histories on real threads with forced hand-off, free-running races in fresh processes."""
    st = StageResult("rp+tv:threads")
    t0 = time.time()
    wd = vlib.workdir(f"{prop}_threads")
    q = tier == "quick"
    # (thorough: 3 threads x 3 steps over the 20-call menu = 216 000 histories, of which 6 000 are executed; a fourth step would be 5.3 million)
    cfg = lambda sticky: (f'CONSTANTS NThreads = {2 if q else 3} MaxLen = 3 Sticky = {"TRUE" if sticky else "FALSE"} Tier = "{tier}"\n'
                          f"SPECIFICATION Spec\nINVARIANTS Pure{'' if sticky else ' Emit'}\nCHECK_DEADLOCK FALSE\n")
    r = vlib.run_tlc("MC_Histories", cfg(False), wd, workers=8, timeout=3000)
    if not r["ok"]:
        raise vlib.ToolError("MC_Histories failed:\n" + r["out"][-2000:])
    st.states += r["distinct"]
    st.transitions += r["generated"]
    rn = vlib.run_tlc("MC_Histories", cfg(True), vlib.workdir(f"{prop}_threads_neg"), workers=8, timeout=3000)
    st.negatives.append({"name": "hidden_cache_keyed_by_part_of_the_argument", "expected": "Pure", "violated": rn["violated"]})
    if "Pure" not in rn["violated"]:
        raise vlib.ToolError("MC_Histories negative configuration not caught")
    hist = vlib.replay_lines(r["out"])
    hist.sort(key=lambda h: json.dumps(h, sort_keys=True))
    rng = random.Random(seed)
    limit = 500 if q else 6000
    if len(hist) > limit:
        # always keep histories in which one thread runs a call and later a related one (smaller before larger parameter
        # set, a recovery before a recovery with more rounds, a refused batch before a valid one, the same call twice)
        pairs = {(0, 3), (1, 3), (2, 3), (0, 1), (0, 2), (5, 11), (6, 11), (10, 6), (10, 9), (8, 6), (4, 4), (9, 9), (4, 5), (12, 13), (13, 12), (14, 6), (14, 14), (15, 15), (15, 6), (15, 14), (15, 11), (15, 8), (16, 16), (17, 17), (10, 17), (3, 16), (18, 18), (19, 19), (19, 4), (18, 6)}

        def related(h):
            st_ = h["steps"]
            return any(st_[i]["th"] == st_[j]["th"] and (st_[i]["call"], st_[j]["call"]) in pairs for i in range(len(st_)) for j in range(i + 1, len(st_)))
        rel = [i for i, h in enumerate(hist) if related(h)]
        keep = set(rng.sample(rel, min(len(rel), limit // 2)))
        rest = [i for i in range(len(hist)) if i not in keep]
        keep |= set(rng.sample(rest, limit - len(keep)))
        hist = [hist[i] for i in sorted(keep)]
    hp = os.path.join(wd, "hist.ndjson")
    with open(hp, "w") as fh:
        for h in hist:
            fh.write(json.dumps(h) + "\n")
    # reference: each call alone, in its own fresh single-threaded process
    ref_lines = ""
    flood = ["--flood", "40000" if q else "300000"]
    from concurrent.futures import ThreadPoolExecutor

    def ref(c):      # (each reference call is alone in its own fresh single-threaded process; the processes run side by side)
        refp = os.path.join(wd, f"ref{c}.ndjson")
        vlib.run_harness(["threads", "--reference", str(c), "--out", refp] + flood)
        return open(refp).read()
    with ThreadPoolExecutor(max_workers=8) as ex:
        ref_lines = "".join(ex.map(ref, range(20)))
    ref_panics(st, ref_lines, seed, tier)
    files = []
    hp_out = os.path.join(wd, "hist_trace.ndjson")
    lp = os.path.join(wd, "long.ndjson")
    # the forced hand-off histories and the long history are single-file runs (one running thread at a time): side by side
    # (the histories in four processes, each a contiguous part with global run numbers)
    nsh = 4
    jobs = [["threads", "--long", "400" if q else "3000", "--out", lp] + flood]
    for k in range(nsh):
        lo, hi = len(hist) * k // nsh, len(hist) * (k + 1) // nsh
        hpk = os.path.join(wd, f"hist_{k}.ndjson")
        with open(hpk, "w") as fh:
            for h in hist[lo:hi]:
                fh.write(json.dumps(h) + "\n")
        jobs.append(["threads", "--histories", hpk, "--run-base", str(lo), "--out", os.path.join(wd, f"hist_trace_{k}.ndjson")] + flood)
    with ThreadPoolExecutor(max_workers=5) as ex:
        list(ex.map(lambda a: vlib.run_harness(a, timeout=3000), jobs))
    with open(hp_out, "w") as fh:
        for k in range(nsh):
            fh.write(open(os.path.join(wd, f"hist_trace_{k}.ndjson")).read())
    files.append(("histories", hp_out))
    files.append(("long", lp))
    # the free-running races have the machine to themselves, one after the other
    for i in range(races if q else races * 5):
        rp = os.path.join(wd, f"race{i}.ndjson")
        vlib.run_harness(["threads", "--race", str(race_threads if i % 2 == 0 else 2 + (i % 15)), "--run", str(i), "--out", rp] + flood, timeout=3000)
        files.append((f"race{i}", rp))
    tcfg = "SPECIFICATION Spec\nCONSTRAINT Progress\nPOSTCONDITION Accepted\nCHECK_DEADLOCK FALSE\n"

    def validate(item):
        name, fp = item
        wdr = vlib.workdir(f"{prop}_tvthr_{name}")
        p = os.path.join(wdr, "trace.ndjson")
        body = open(fp).read()
        with open(p, "w") as fh:
            fh.write(ref_lines + body)
        return body, vlib.run_tlc("TraceThreads", tcfg, wdr, workers=1, timeout=1500, java_opts=TRACE_JAVA, env_extra={"TRACE": p})
    with ThreadPoolExecutor(max_workers=8) as ex:
        validated = list(ex.map(validate, files))
    for (name, fp), (body, rr) in zip(files, validated):
        st.states += rr.get("distinct", 0)
        st.transitions += rr.get("generated", 0)
        nev = body.count("\n")
        rej = vlib.tagged_lines(rr["out"], "REJECTED")
        if rej:
            import re
            pos = int(re.match(r"\s*(\d+),", rej[-1]).group(1))
            allev = [json.loads(x) for x in (ref_lines + body).splitlines()]
            bad = allev[pos - 1] if pos <= len(allev) else {}
            st.add_violation(f"[TraceThreads/{name}] call {bad.get('call')} on thread {bad.get('th')} (run {bad.get('run')}) returned a result different from the same call run alone",
                             {"kind": "threads", "seed": seed, "tier": tier, "name": name, "event": bad,
                              "history": hist[bad["run"]] if name == "histories" and bad.get("run") is not None and bad["run"] < len(hist) else None})
            st.evaluations += max(0, pos - 1 - ref_lines.count("\n"))
        else:
            if not rr["ok"]:
                raise vlib.ToolError("TLC failed on TraceThreads:\n" + rr["out"][-2000:])
            st.evaluations += nev
            st.traces += len(hist) if name == "histories" else 1
    for h in hist:
        st.distinct.add(vlib.digest(h))
    st.samples.append({"history": hist[0], "races": len(files) - 1})
    st.notes["histories"] = len(hist)
    st.wall = time.time() - t0
    return st


def replay_threads(rep):
    st = threads_stage("replay", rep.get("tier", "quick"), rep["seed"])
    return [v["message"] for v in st.violations]


def vectors_stage(prop, seed):
    """Golden vectors recorded from the pinned release verify and recover the recorded masks on the current tree."""
    st = StageResult("rp:golden-vectors")
    t0 = time.time()
    for name in ("golden_0.4.0.json", "golden_0.4.0_special.json"):
        vf = os.path.join(vlib.VERIF, "vectors", name)
        out = json.loads(vlib.run_harness(["vectors", "--file", vf], timeout=1800))
        st.evaluations += out["checked"]
        st.traces += out["checked"]
        vec = json.load(open(vf))
        for v in vec:
            st.distinct.add(f"{v['bits']}/{v['aggregation']}/{v['capacity']}/{v['degree']}/{v['seed'] is not None}/{v.get('kind', '')}")
        st.samples.append({k: vec[0][k] for k in ("bits", "aggregation", "capacity", "degree", "label")})
        for mm in out["mismatches"]:
            st.add_violation(f"[golden vectors] {mm}", {"kind": "vectors", "seed": seed, "message": mm})
    st.wall = time.time() - t0
    return st


def nonce_stage(prop):
    """TLC checks injectivity of the seed-nonce key layout and prints the key table; the harness's reference must match it."""
    st = StageResult("mc:nonce-layout")
    t0 = time.time()
    wd = vlib.workdir(f"{prop}_nonce")
    r = vlib.run_tlc("MC_Nonce", "CONSTANTS MaxRounds = 12 MaxDeg = 6\nSPECIFICATION Spec\nINVARIANTS Injective PersonaFits Emit\nCHECK_DEADLOCK FALSE\n", wd, workers=2, timeout=600)
    if not r["ok"]:
        raise vlib.ToolError("MC_Nonce failed:\n" + r["out"][-2000:])
    st.states += r["distinct"]
    st.transitions += r["generated"]
    script = vlib.replay_lines(r["out"])[0]
    sp = os.path.join(wd, "nonce.json")
    json.dump(script, open(sp, "w"))
    out = json.loads(vlib.run_harness(["noncekeys", "--script", sp]))
    if out["mismatches"]:
        raise vlib.ToolError("harness reference nonce derivation disagrees with MC_Nonce: " + str(out["mismatches"][:3]))
    st.evaluations += out["checked"]
    st.samples.append(script["table"][0])
    st.wall = time.time() - t0
    return st


def apalache_stage(prop, module, inv, length, negative_inv=None, timeout=900, cinit=None, negative_cinits=(), note=None):
    """Symbolic bounded check with Apalache (used where a quantity such as the input length or the chunk size is left symbolic)."""
    import subprocess, shutil
    st = StageResult(f"apalache:{module}")
    t0 = time.time()
    wd = vlib.workdir(f"{prop}_apalache_{module}")
    shutil.copy(os.path.join(vlib.SPEC, module + ".tla"), wd)

    def run(i, ci, tag):
        cmd = ["timeout", str(timeout), "apalache-mc", "check", f"--length={length}", f"--inv={i}", "--out-dir=" + os.path.join(wd, "out_" + tag)]
        if ci:
            cmd.append(f"--cinit={ci}")
        p = subprocess.run(cmd + [module + ".tla"], cwd=wd, stdout=subprocess.PIPE, stderr=subprocess.STDOUT, text=True)
        return p.stdout
    out = run(inv, cinit, "main")
    if "The outcome is: NoError" not in out:
        if "The outcome is: Error" in out:
            raise vlib.ToolError(f"Apalache refutes {inv} of {module} on the specification itself:\n" + out[-1500:])
        raise vlib.ToolError(f"Apalache failed on {module}:\n" + out[-2000:])
    st.states += length + 1          # symbolic steps explored (each covers every input)
    st.transitions += length
    st.samples.append({"apalache": module, "invariant": inv, "symbolic_steps": length, "outcome": "NoError"})
    negs = ([(cinit, negative_inv)] if negative_inv else []) + [(c, inv) for c in negative_cinits]
    for (ci, ni) in negs:
        outn = run(ni, ci, f"neg_{ci}_{ni}")
        caught = "The outcome is: Error" in outn
        st.negatives.append({"name": f"{ci or ''}:{ni}", "expected": "refuted", "violated": ["refuted"] if caught else []})
        if not caught:
            raise vlib.ToolError(f"Apalache did not refute the seeded defect {ci}/{ni} of {module}")
    st.notes["symbolic"] = note or "inputs are symbolic"
    st.wall = time.time() - t0
    return st


def tlaps_stage(prop, module, theorem, negative_edits=(), timeout=900):
    """Unbounded proof with the TLA+ proof system: every obligation of spec/proofs/<module>.tla must be discharged; each
    negative edit (old text, new text) seeds a design defect into a copy, and tlapm must then FAIL to prove it."""
    import subprocess, shutil, re
    st = StageResult(f"tlaps:{module}")
    t0 = time.time()
    src = open(os.path.join(vlib.SPEC, "proofs", module + ".tla")).read()

    def run(text, tag):
        wd = vlib.workdir(f"{prop}_tlaps_{module}_{tag}")
        shutil.rmtree(os.path.join(wd, ".tlacache"), ignore_errors=True)
        with open(os.path.join(wd, module + ".tla"), "w") as fh:
            fh.write(text)
        p = subprocess.run(["timeout", str(timeout), "tlapm", "--threads", "6", "--cleanfp", module + ".tla"], cwd=wd,
                           stdout=subprocess.PIPE, stderr=subprocess.STDOUT, text=True)
        m = re.search(r"All (\d+) obligations? proved", p.stdout)
        return (int(m.group(1)) if m else None), p.stdout
    n, out = run(src, "main")
    if n is None:
        raise vlib.ToolError(f"tlapm did not prove {module}:\n" + out[-2500:])
    st.states += n
    st.samples.append({"tlaps": module, "theorem": theorem, "obligations_proved": n})
    for i, (old, new) in enumerate(negative_edits):
        if old not in src:
            raise vlib.ToolError(f"negative edit {i} of {module} does not apply")
        nn, outn = run(src.replace(old, new, 1), f"neg{i}")
        caught = nn is None and "obligations failed" in outn
        st.negatives.append({"name": f"edit: {old.strip()} -> {new.strip()}", "expected": "unprovable", "violated": ["unprovable"] if caught else []})
        if not caught:
            raise vlib.ToolError(f"tlapm still proves {module} with the seeded defect {i}:\n" + outn[-1500:])
    st.notes["unbounded"] = "proved for every batch size, every chunk size >= 1 and every validity/class assignment"
    st.wall = time.time() - t0
    return st


def codec_trace_stage(prop, tier, seed):
    """impl -> spec for the decoder: structured transformations of well-formed encodings, every decision validated by TLC."""
    st = StageResult("trace:TraceCodec")
    t0 = time.time()
    cfg = "SPECIFICATION Spec\nCONSTRAINT Progress\nPOSTCONDITION Accepted\nCHECK_DEADLOCK FALSE\n"
    for g in ("rist", "fm"):
        wd = vlib.workdir(f"{prop}_codec_{g}")
        tp = os.path.join(wd, "trace.ndjson")
        info = json.loads(vlib.run_harness(["codectrace", "--out", tp, "--seed", str(seed), "--count", "60" if tier == "quick" else "600", "--group", g]))
        events = [json.loads(x) for x in open(tp)]
        cur = events
        for _ in range(6):
            if not cur:
                break
            wdr = vlib.workdir(f"{prop}_tvcodec_{g}_{_}")
            p = os.path.join(wdr, "trace.ndjson")
            with open(p, "w") as fh:
                for e in cur:
                    fh.write(json.dumps(e) + "\n")
            r = vlib.run_tlc("TraceCodec", cfg, wdr, workers=1, timeout=900, java_opts=TRACE_JAVA, env_extra={"TRACE": p})
            st.states += r.get("distinct", 0)
            st.transitions += r.get("generated", 0)
            rej = vlib.tagged_lines(r["out"], "REJECTED")
            if not rej:
                if not r["ok"]:
                    raise vlib.ToolError("TLC failed on TraceCodec:\n" + r["out"][-2000:])
                st.evaluations += len(cur)
                st.traces += len(cur)
                break
            import re
            pos = int(re.match(r"\s*(\d+),", rej[-1]).group(1))
            bad = cur[pos - 1]
            st.add_violation(f"[TraceCodec/{g}] decoder {'accepted' if bad['accepted'] else 'refused'} a {bad['len']}-byte string ({bad['how']}, first byte {bad['fb']}, "
                             f"non-canonical chunks {bad['noncanon'][:6]}) against the acceptance set; reencodes={bad['reencodes']} serde={bad['serde_slice']}/{bad['serde_stream']}",
                             {"kind": "codec", "group": g, "seed": seed, "tier": tier, "event": bad})
            st.evaluations += pos
            cur = cur[pos:]
        for e in events:
            st.distinct.add((e["how"], e["len"], e["fb"], tuple(e["noncanon"][:4])))
        st.notes[g] = info
    st.distinct = set(str(x) for x in st.distinct)
    st.samples.append({"how": events[1]["how"], "len": events[1]["len"], "fb": events[1]["fb"], "accepted": events[1]["accepted"]})
    st.wall = time.time() - t0
    return st


def replay_codec(rep):
    st = codec_trace_stage("replay", rep.get("tier", "quick"), rep["seed"])
    return [v["message"] for v in st.violations]
