#!/usr/bin/env python3
"""Confirm a sub-agent's seeded change in its scratch worktree and run checks against it.

usage: mutants.py confirm <PID> <mN>              (worktree /tmp/mut/<PID>, files in /tmp/mut/<PID>/MUTANT/<mN>)
       mutants.py eval <seeded-id> <check> [<check> ...]   (applies /verif/seeded/<id>/patch.diff to /repo, runs checks, reverts)
"""
import json, os, shutil, subprocess, sys, time
VERIF = os.path.dirname(os.path.dirname(os.path.abspath(__file__)))


def sh(cmd, cwd=None, timeout=3600):
    p = subprocess.run(cmd, cwd=cwd, shell=True, stdout=subprocess.PIPE, stderr=subprocess.STDOUT, text=True, timeout=timeout)
    return p.returncode, p.stdout


def confirm(pid, m):
    wt = f"/tmp/mut11/{pid}"
    md = f"{wt}/MUTANT/{m}"
    out = {"suite_passes_with_change": None, "demo_fails_with_change": None, "demo_passes_without": None}
    sh("git checkout -- src && rm -f tests/zz_demo.rs", wt)
    rc, o = sh(f"git apply {md}/patch.diff", wt)
    if rc != 0:
        return {"error": "patch does not apply: " + o[-500:]}
    rc, o = sh("cargo test --offline 2>&1 | grep -E '^test result|FAILED|^error' ", wt)
    out["suite_passes_with_change"] = ("FAILED" not in o and "error" not in o and o.count("test result: ok") >= 3)
    out["suite_output"] = o[-600:]
    shutil.copy(f"{md}/demo.rs", f"{wt}/tests/zz_demo.rs")
    rc, o = sh("cargo test --offline --test zz_demo 2>&1 | tail -15", wt)
    out["demo_fails_with_change"] = "test result: FAILED" in o or "panicked" in o
    sh("git checkout -- src", wt)
    rc, o = sh("cargo test --offline --test zz_demo 2>&1 | tail -5", wt)
    out["demo_passes_without"] = "test result: ok" in o
    os.remove(f"{wt}/tests/zz_demo.rs")
    out["confirmed"] = bool(out["suite_passes_with_change"] and out["demo_fails_with_change"] and out["demo_passes_without"])
    return out


def keep(pid, m, conf):
    sid = f"{pid}_{m}"
    d = os.path.join(VERIF, "seeded", sid)
    os.makedirs(d, exist_ok=True)
    md = f"/tmp/mut11/{pid}/MUTANT/{m}"
    shutil.copy(f"{md}/patch.diff", d)
    shutil.copy(f"{md}/demo.rs", d)
    readme = open(f"{md}/README.md").read() if os.path.exists(f"{md}/README.md") else ""
    meta = {"id": sid, "property": pid, "needs_to_manifest": readme, "confirmation": {k: v for k, v in conf.items() if k != "suite_output"},
            "commands": ["git apply patch.diff && cargo test --offline (suite passes)", "cp demo.rs tests/zz_demo.rs && cargo test --offline --test zz_demo (fails with the change, passes without)"],
            "detected_by": {}}
    json.dump(meta, open(os.path.join(d, "meta.json"), "w"), indent=1)
    return d


def evaluate(sid, checks, tier="quick"):
    d = os.path.join(VERIF, "seeded", sid)
    rc, o = sh("git status --short -- src | head -3", "/repo")
    if o.strip():
        raise SystemExit("/repo has uncommitted changes: " + o)
    rc, o = sh(f"git apply {d}/patch.diff", "/repo")
    if rc != 0:
        raise SystemExit("patch does not apply to /repo: " + o)
    res = {}
    try:
        for c in checks:
            t0 = time.time()
            # evidence and replay files of runs against a seeded change go to a scratch directory, not to /verif/evidence
            rc, o = sh(f"BPPV_OUT=/var/tmp/bppv-side/mutant-out ./check {c} --tier {tier}", VERIF, timeout=7200)
            viol = [l for l in o.splitlines() if l.startswith("VIOLATION")]
            res[c] = {"exit": rc, "violations": len(viol), "first": (o.splitlines()[o.splitlines().index(viol[0]) + 1].strip() if viol and o.splitlines().index(viol[0]) + 1 < len(o.splitlines()) else ""),
                      "wall_s": round(time.time() - t0), "tool_error": [l for l in o.splitlines() if l.startswith("TOOL-ERROR")][:1]}
    finally:
        sh("git checkout -- .", "/repo")
    mp = os.path.join(d, "meta.json")
    meta = json.load(open(mp))
    meta["detected_by"].update({c: r for c, r in res.items()})
    json.dump(meta, open(mp, "w"), indent=1)
    return res


def sideeval(sid, slot, checks, tier="quick", base=None):
    """Like evaluate(), but in a scratch worktree /tmp/ev/<slot> through lib/sidecheck.sh: /repo is not touched."""
    d = os.path.join(VERIF, "seeded", sid)
    wt = f"/tmp/ev/{slot}"
    sh("git checkout -- .", wt)
    rc, o = sh(f"git apply {d}/patch.diff", wt)
    if rc != 0:
        raise SystemExit("patch does not apply: " + o)
    res = {}
    try:
        for c in checks:
            t0 = time.time()
            rc, o = sh(f"TIER={tier} {('BPPV_SRC=' + base + ' ') if base else ''}{VERIF}/lib/sidecheck.sh {wt} {slot} {c}", VERIF, timeout=14400)
            lines = o.splitlines()
            viol = [l for l in lines if l.startswith("VIOLATION")]
            ok = any(l.startswith("OK property") for l in lines)
            first = next((l.strip() for l in lines if l.startswith("  [")), "")
            res[c] = {"exit": 1 if viol else (0 if ok else 2), "violations": len(viol), "first": first, "wall_s": round(time.time() - t0),
                      "tool_error": [l for l in lines if l.startswith("TOOL")][:1]}
    finally:
        sh("git checkout -- .", wt)
    mp = os.path.join(d, "meta.json")
    meta = json.load(open(mp))
    meta.setdefault("first_run", {}).update(res) if base else meta["detected_by"].update(res)
    json.dump(meta, open(mp, "w"), indent=1)
    return res


if __name__ == "__main__":
    if sys.argv[1] == "confirm":
        pid, m = sys.argv[2], sys.argv[3]
        c = confirm(pid, m)
        print(json.dumps({k: v for k, v in c.items() if k != "suite_output"}))
        if c.get("confirmed"):
            print("kept:", keep(pid, m, c))
        else:
            print(c.get("suite_output", ""))
    elif sys.argv[1] == "sideeval_base":
        # the framework as it was BEFORE it was strengthened for this round (a worktree of /verif at that commit)
        print(json.dumps(sideeval(sys.argv[2], sys.argv[3], sys.argv[4:], base="/var/tmp/verif-base"), indent=1))
    elif sys.argv[1] == "sideeval":
        print(json.dumps(sideeval(sys.argv[2], sys.argv[3], sys.argv[4:]), indent=1))
    elif sys.argv[1] == "eval":
        print(json.dumps(evaluate(sys.argv[2], sys.argv[3:]), indent=1))
