#!/usr/bin/env python3
"""Print the §11 table of DESIGN.md from /verif/seeded/*/meta.json."""
import glob, json, os, re
rows = []
for d in sorted(glob.glob(os.path.join(os.path.dirname(os.path.dirname(os.path.abspath(__file__))), "seeded", "*"))):
    m = json.load(open(os.path.join(d, "meta.json")))
    readme = m.get("needs_to_manifest", "")
    # first sentence-ish of the README as the description
    lines = [l.strip("#* -") for l in readme.splitlines() if l.strip() and not l.startswith("```")]
    title = lines[0][:110] if lines else ""
    det = []
    for c, r in sorted(m.get("detected_by", {}).items()):
        det.append(f"{c}: {'caught (' + str(r['violations']) + ')' if r['exit'] == 1 else ('MISSED' if r['exit'] == 0 else 'tool error')}" + (f" — {r['first'][:90]}" if r.get("first") else ""))
    rows.append((m["id"], title, "; ".join(det)))
print("| seeded change | what it does | result of the owning check (quick tier) |")
print("|---|---|---|")
for r in rows:
    print("| `%s` | %s | %s |" % r)
