#!/bin/sh
# usage: sidecheck.sh <library checkout dir> <tag> <check> [<check> ...]
# Runs checks against ANOTHER checkout of the library (e.g. a scratch worktree with a change applied) from a private SNAPSHOT
# of the framework (check, lib, spec, harness sources), with private work and output directories: several evaluations can run
# side by side, /repo is untouched, and editing /verif meanwhile does not disturb them.
set -e
LIB=$1; TAG=$2; shift 2
D=/var/tmp/bppv-side/$TAG
mkdir -p $D/verif
SRC=${BPPV_SRC:-/verif}
rsync -a --delete --exclude target $SRC/harness/ $D/harness/
rsync -a --delete $SRC/check $SRC/lib $SRC/spec $SRC/known_findings.json $SRC/vectors $SRC/properties.jsonl $D/verif/
sed -i "s#path = \"/repo\"#path = \"$LIB\"#" $D/harness/Cargo.toml
export BPPV_HARNESS=$D/harness BPPV_WORK=$D/work BPPV_OUT=$D/out
cd $D/verif
for c in "$@"; do
  /usr/bin/time -f "%es" ./check $c --tier ${TIER:-quick} 2>&1 | grep -E "^OK|^VIOLATION|^TOOL|^KNOWN|^  \[|s$" | cut -c1-260
done
