"""Shared machinery of the /verif checks: TLC runs, REPLAY extraction, harness runs, evidence."""
import json, os, re, shutil, subprocess, sys, time, hashlib

VERIF = os.path.dirname(os.path.dirname(os.path.abspath(__file__)))
SPEC = os.path.join(VERIF, "spec")
# overridable so that several evaluations (each against its own checkout of the library) can run side by side
HARNESS = os.environ.get("BPPV_HARNESS", os.path.join(VERIF, "harness"))
WORK = os.environ.get("BPPV_WORK", os.path.join(VERIF, ".work"))
OUT = os.environ.get("BPPV_OUT", VERIF)
TLA_JAR = "/opt/veriftools/tla/tla2tools.jar"
COMMUNITY = "/opt/veriftools/tla/CommunityModules-deps.jar"


class ToolError(Exception):
    pass


def workdir(name):
    d = os.path.join(WORK, name)
    shutil.rmtree(d, ignore_errors=True)
    os.makedirs(d)
    return d


def tlc_classpath():
    cands = [TLA_JAR]
    d = os.path.dirname(TLA_JAR)
    for f in sorted(os.listdir(d)):
        if f.endswith(".jar") and os.path.join(d, f) not in cands:
            cands.append(os.path.join(d, f))
    return ":".join(cands)


def run_tlc(module, cfg_text, wd, workers=8, timeout=900, java_opts=None, env_extra=None, simulate=None, seed=None, extra_args=None, coverage=False):
    """Run TLC on spec/<module>.tla with the given cfg text inside wd. Returns a dict with the parsed outcome."""
    for f in os.listdir(SPEC):
        if f.endswith(".tla"):
            shutil.copy(os.path.join(SPEC, f), wd)
    cfg = os.path.join(wd, module + ".cfg")
    with open(cfg, "w") as fh:
        fh.write(cfg_text)
    jopts = list(java_opts or ["-XX:+UseParallelGC", "-Xmx6g"])
    # TLC unpacks its standard modules into java.io.tmpdir on every run: keep that inside the (reused) work directory, not /tmp
    jtmp = os.path.join(wd, "jtmp")
    shutil.rmtree(jtmp, ignore_errors=True)
    os.makedirs(jtmp, exist_ok=True)
    jopts.append("-Djava.io.tmpdir=" + jtmp)
    cmd = ["timeout", str(timeout), "java"] + jopts + ["-cp", tlc_classpath(), "tlc2.TLC", "-workers", str(workers),
           "-metadir", os.path.join(wd, "states"), "-cleanup", "-noGenerateSpecTE", "-config", cfg]
    if coverage:
        cmd += ["-coverage", "1"]
    if simulate:
        cmd += ["-simulate", simulate]
    if seed is not None:
        cmd += ["-seed", str(seed)]
    if extra_args:
        cmd += extra_args
    cmd += [os.path.join(wd, module + ".tla")]
    env = dict(os.environ)
    env.pop("JAVA_TOOL_OPTIONS", None)
    if env_extra:
        env.update(env_extra)
    t0 = time.time()
    p = subprocess.run(cmd, cwd=wd, env=env, stdout=subprocess.PIPE, stderr=subprocess.STDOUT, text=True)
    out = p.stdout
    res = {"rc": p.returncode, "wall_s": time.time() - t0, "out": out, "cmd": " ".join(cmd)}
    m = re.search(r"(\d+) states generated, (\d+) distinct states found", out)
    if m:
        res["generated"] = int(m.group(1))
        res["distinct"] = int(m.group(2))
    res["violated"] = re.findall(r"Error: Invariant (\S+) is violated", out) + re.findall(r"Error: Action property (\S+) is violated", out) \
        + (["temporal"] if "Temporal properties were violated" in out else [])
    res["ok"] = ("Model checking completed. No error has been found." in out) or (simulate is not None and p.returncode in (0, 124) and not res["violated"] and "Error:" not in out)
    res["timeout"] = p.returncode == 124
    return res


def replay_lines(out):
    """The JSON payloads of the <<"REPLAY", "...">> lines TLC printed."""
    res = []
    for line in out.splitlines():
        if line.startswith('<<"REPLAY", "'):
            inner = line[len('<<"REPLAY", '):-2]
            res.append(json.loads(json.loads(inner)))
    return res


def tagged_lines(out, tag):
    res = []
    pre = '<<"%s", ' % tag
    for line in out.splitlines():
        if line.startswith(pre):
            res.append(line[len(pre):-2])
    return res


_built = {}


def build_harness(profile="release"):
    """Rebuild the harness (and with it the library from /repo's working tree)."""
    if profile in _built:
        return _built[profile]
    cmd = ["cargo", "build", "--offline", "--quiet"] + (["--release"] if profile == "release" else [])
    env = dict(os.environ, CARGO_NET_OFFLINE="true")
    p = subprocess.run(cmd, cwd=HARNESS, env=env, stdout=subprocess.PIPE, stderr=subprocess.STDOUT, text=True)
    if p.returncode != 0:
        raise ToolError("harness build failed:\n" + p.stdout[-4000:])
    b = os.path.join(HARNESS, "target", "release" if profile == "release" else "debug", "bppv")
    _built[profile] = b
    return b


class HarnessDied(Exception):
    """the harness process itself died (abort, kill, watchdog): the code under test took the process down"""
    def __init__(self, rc, stderr):
        self.rc = rc
        self.stderr = stderr


def run_harness(args, profile="release", timeout=1800, stdin=None, died_ok=False):
    b = build_harness(profile)
    p = subprocess.run(["timeout", str(timeout), b] + args, stdout=subprocess.PIPE, stderr=subprocess.PIPE, text=True, input=stdin)
    if p.returncode != 0:
        if died_ok and p.returncode not in (2, 124, 125, 126, 127):
            raise HarnessDied(p.returncode, (p.stderr or "")[-1000:])
        raise ToolError("harness %s exited %d: %s" % (" ".join(args[:4]), p.returncode, (p.stderr or p.stdout)[-2000:]))
    return p.stdout


def write_json(path, obj):
    os.makedirs(os.path.dirname(path), exist_ok=True)
    with open(path, "w") as fh:
        json.dump(obj, fh, indent=1)


def digest(obj):
    return hashlib.sha256(json.dumps(obj, sort_keys=True).encode()).hexdigest()[:16]
