#!/bin/sh
# parse every specification module (run before committing)
cd "$(dirname "$0")/../spec"
rc=0
for f in *.tla; do
  out=$(java -cp /opt/veriftools/tla/tla2tools.jar:/opt/veriftools/tla/CommunityModules-deps.jar tla2sany.SANY $f 2>&1)
  if echo "$out" | grep -q "\*\*\* Errors\|Could not parse\|Fatal"; then echo "SANY FAIL $f"; echo "$out" | grep -A6 "Errors" | head -12; rc=1; fi
done
[ $rc -eq 0 ] && echo "all modules parse"
exit $rc
