#!/usr/bin/env python3
"""Demonstration that the trace specifications are bound to what the library did (not part of any check).

Records a few executions of the library on the current tree, confirms that TLC accepts each recording, then corrupts one
recorded field - or removes one recorded event, as a missing hook would - and confirms that TLC rejects each corrupted
recording at (or right after) the touched event.  usage: python3 lib/binding_demo.py        (about two minutes)
"""
import copy, json, os, sys
sys.path.insert(0, os.path.dirname(os.path.abspath(__file__)))
import stages, vlib, props

ROWS = []


def validate(module, consts, events, name):
    wd = vlib.workdir("bind_" + name)
    p = os.path.join(wd, "in.ndjson")
    with open(p, "w") as fh:
        for e in events:
            fh.write(json.dumps(e) + "\n")
    _, consumed, rej = stages.validate_trace_file(module, consts, p, "bind_" + name + "_tv")
    return (not rej), (rej[0][1] if rej else f"accepted ({consumed} events)")


def case(module, consts, events, name, what, mutate):
    ev = copy.deepcopy(events)
    mutate(ev)
    ok, msg = validate(module, consts, ev, name)
    ROWS.append((module, what, "REJECTED" if not ok else "accepted (!)", msg))
    return not ok


def record(args, out):
    vlib.run_harness(args + ["--out", out])
    return [json.loads(x) for x in open(out)]


def main():
    vlib.build_harness("release")
    wd = vlib.workdir("bind_rec")
    seed = 1
    # ---- verifier: a small mixed batch, full arithmetic
    sc, _ = stages.pick_scenarios("batch", "quick", seed, lambda s: props.reaches_msm(s) and props.nm_of(s) <= 8 and len(s["sc"]["members"]) <= 3, 1, prop="bind")
    sp = os.path.join(wd, "v.scen")
    open(sp, "w").write(json.dumps(sc[0]) + "\n")
    ev = record(["trace", "--scen", sp, "--seed", "1", "--calls", "verify", "--arith"], os.path.join(wd, "v.ndjson"))
    cv = {"Strict": "FALSE", "CheckArith": "TRUE", "CheckLayout": "FALSE"}
    ok, msg = validate("TraceVerify", cv, ev, "v0")
    ROWS.append(("TraceVerify", "recording as made", "accepted" if ok else "REJECTED (!)", msg))
    good = ok
    vm = next(i for i, e in enumerate(ev) if e["ev"] == "VMSM")

    def obs(e):
        e[vm]["obs"][3][1][0] = (e[vm]["obs"][3][1][0] + 1) % 4096
    good &= case("TraceVerify", cv, ev, "v1", "one limb of one scalar of the final check altered", obs)

    def stat(e):
        e[vm]["stat"][1][3][0] = (e[vm]["stat"][1][3][0] + 1) % 4096
    good &= case("TraceVerify", cv, ev, "v2", "one limb of one generator-table scalar altered", stat)
    ia = next(i for i, e in enumerate(ev) if e["ev"] == "TAppend" and e["label"] == "A")

    def drop_a(e):
        del e[ia]
    good &= case("TraceVerify", cv, ev, "v3", "the absorption of A removed (a missing hook)", drop_a)
    iw = max(i for i, e in enumerate(ev) if e["ev"] == "RBuild")

    def drop_w(e):
        del e[iw]
    good &= case("TraceVerify", cv, ev, "v4", "the construction of the weight generator removed", drop_w)
    ic = next(i for i, e in enumerate(ev) if e["ev"] == "TChal" and e["label"] == "y")

    def chal(e):
        e[ic]["wide"][0] = (e[ic]["wide"][0] + 1) % 4096
    good &= case("TraceVerify", cv, ev, "v5", "one limb of the recorded challenge y altered", chal)

    # ---- prover: one small honest proof, full arithmetic
    scp, _ = stages.pick_scenarios("complete", "quick", seed, lambda s: props.honest(s) and props.nm_of(s) == 4 and s["sc"]["members"][0]["t"] == 1, 1, prop="bind")
    sp = os.path.join(wd, "p.scen")
    open(sp, "w").write(json.dumps(scp[0]) + "\n")
    evp = record(["trace", "--scen", sp, "--seed", "1", "--calls", "prove", "--arith"], os.path.join(wd, "p.ndjson"))
    cp = {"Strict": "FALSE", "CheckArith": "TRUE", "CrossFresh": "FALSE"}
    ok, msg = validate("TraceProve", cp, evp, "p0")
    ROWS.append(("TraceProve", "recording as made", "accepted" if ok else "REJECTED (!)", msg))
    good &= ok

    def nonce(e):
        e[0]["Ls"][0]["G"][0][0] = (e[0]["Ls"][0]["G"][0][0] + 1) % 4096
    good &= case("TraceProve", cp, evp, "p1", "one limb of the nonce dL_1 (G-coordinate of L_1) altered", nonce)

    def coord(e):
        e[0]["A"]["Hi"][1][0] = (e[0]["A"]["Hi"][1][0] + 1) % 4096
    good &= case("TraceProve", cp, evp, "p2", "one limb of one coordinate of A altered", coord)
    ir = next(i for i, e in enumerate(evp) if e["ev"] == "RRekey")

    def rekey(e):
        del e[ir]
    good &= case("TraceProve", cp, evp, "p3", "one witness rekey removed (a missing hook)", rekey)

    # ---- memory and threads
    mem = record(["mem", "--seed", "1"], os.path.join(wd, "m.ndjson"))
    mem = [e for e in mem if e["scen"] < 3]
    ok, msg = validate("TraceMemory", {}, mem, "m0")
    ROWS.append(("TraceMemory", "recording as made", "accepted" if ok else "REJECTED (!)", msg))
    good &= ok
    fi = next(i for i, e in enumerate(mem) if e["ev"] == "Free")

    def taint(e):
        e[fi]["taint"] = ["seed"]
    good &= case("TraceMemory", {}, mem, "m1", "one released block marked as holding the seed", taint)
    refs = []
    for c in (0, 4):
        refs += record(["threads", "--reference", str(c)], os.path.join(wd, f"r{c}.ndjson"))
    hp = os.path.join(wd, "h.ndjson")
    open(hp, "w").write(json.dumps({"threads": 2, "steps": [{"th": 1, "call": 0}, {"th": 2, "call": 4}, {"th": 1, "call": 4}]}) + "\n")
    th = refs + record(["threads", "--histories", hp], os.path.join(wd, "t.ndjson"))
    ok, msg = validate("TraceThreads", {}, th, "t0")
    ROWS.append(("TraceThreads", "recording as made", "accepted" if ok else "REJECTED (!)", msg))
    good &= ok

    def dig(e):
        e[-1]["digest"] = "00" + e[-1]["digest"][2:]
    good &= case("TraceThreads", {}, th, "t1", "the result of the last call altered", dig)
    w = max(len(r[1]) for r in ROWS)
    for r in ROWS:
        print(f"{r[0]:<13} {r[1]:<{w}}  {r[2]:<13} {r[3]}")
    print("binding demonstrated" if good else "BINDING NOT DEMONSTRATED")
    return 0 if good else 2


if __name__ == "__main__":
    sys.exit(main())
