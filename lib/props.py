"""Per-property composition of stages, evidence writing, known findings."""
import json, os, time
import vlib, stages

EVID = os.path.join(vlib.OUT, "evidence")
REPLAYS = os.path.join(vlib.OUT, "replays")
KNOWN = os.path.join(vlib.VERIF, "known_findings.json")

Q = lambda tier: tier == "quick"


# ---------------------------------------------------------------------------------------------------
# per-property runs
# ---------------------------------------------------------------------------------------------------
TP_CONSTS = {"Strict": "FALSE", "CheckArith": "TRUE", "CrossFresh": "FALSE"}
TV_TOKEN = {"Strict": "FALSE", "CheckArith": "FALSE", "CheckLayout": "FALSE"}


def honest(s):
    return s["expect"]["prove"] == "ok" and s["expect"]["verify"] == "ok"


def par(*thunks):
    """Run independent stages side by side (each has its own work directory); results in the order given."""
    from concurrent.futures import ThreadPoolExecutor
    with ThreadPoolExecutor(max_workers=4) as ex:
        futs = [ex.submit(t) for t in thunks]
        return [f.result() for f in futs]


def run_C01(tier, seed):
    q = Q(tier)
    res = [stages.api_stage("C01", "complete", tier, seed)]
    # design level: published relation vanishes on the code-shaped prover's output, exhaustively over GF(p)
    res.append(stages.algebra_stage("C01", [(5, 2, 1, 2, "prover")] if q else [(5, 2, 2, 1, "prover"), (7, 4, 1, 2, "prover"), (5, 1, 4, 1, "prover")]))
    # conformance: the library's prover and verifier, step by step against the specification, in 252-bit arithmetic
    # (always including commitments that are the identity point: value 0 under all-zero blindings)
    sc, _ = stages.pick_scenarios("complete", tier, seed, lambda s: honest(s) and nm_of(s) <= (8 if q else 32), 14 if q else 120, prop="C01",
                                  must=identity_commitment)
    res.append(stages.trace_stage("C01", "prove", sc, seed, module="TraceProve", consts=TP_CONSTS, calls="prove"))
    res.append(stages.trace_stage("C01", "verify", sc, seed, module="TraceVerify", calls="verify"))
    # honest triples stay accepted however many of them are verified together (beyond the chunk limit, mixed sizes)
    big = stages.api_stage("C01", "batch", tier, seed, groups=("rist",), scale="2:256", scale_min=0, limit=25 if q else 400,
                           filter_fn=lambda s: s["expect"]["verify"] == "ok" and s["sc"]["skew"] == [0, 0, 0],
                           must_fn=lambda s: any(m["n"] == 64 for m in s["sc"]["members"]))
    big.name = "api:batch@256"
    res.append(big)
    # honest batches in the middle of refused ones (structurally broken members at any position), one after the other on one thread:
    # an honest triple stays accepted whatever was verified before it
    res.append(stages.api_stage("C01", "batch", tier, seed, groups=("fm",)))
    return res


def identity_commitment(s):
    return any(m.get("zb") == 1 and all(not any(v) for v in m["vals"]) for m in s["sc"]["members"])


def nm_of(s):
    return max(m["n"] * m["m"] for m in s["sc"]["members"])


def cache_edit(s):
    """statements whose CACHED encodings (of a commitment, of a generator) were edited away from the points they belong to: the trace
    specifications compare with the encodings of the points, so these are left to the API-level stages"""
    return any(m["v"]["commit"] == "cache" or m["v"]["pgH"] == 2 or m["v"]["pgG"] == 200 for m in s["sc"]["members"])


def verifies(s):
    """scenarios whose verify_batch call is reached with decodable proofs (and whose traces can be compared: see cache_edit)"""
    return (s["expect"]["prove"] == "ok" and all(m["mut"]["kind"] not in ("bytes",) and m["mut"]["how"] != "noncanon" for m in s["sc"]["members"])
            and not cache_edit(s))


def reaches_msm(s):
    """batches whose verification gets as far as the final check: consistent members, no structural refusal"""
    ms = s["sc"]["members"]
    f = ms[0]["v"]
    return (s["expect"]["prove"] == "ok" and s["sc"]["skew"] == [0, 0, 0] and s["sc"]["mode"] != "RecoverOnly" and len(ms) >= 2
            and all(m["v"]["n"] == f["n"] and m["v"]["t"] == f["t"] and m["v"]["pgH"] == f["pgH"] and m["v"]["pgG"] == f["pgG"]
                    and m["n"] == m["v"]["n"] and m["t"] == m["v"]["t"] for m in ms)
            and all(m["mut"]["kind"] == "none" or (m["mut"]["kind"] == "scalar" and m["mut"]["how"] != "noncanon")
                    or (m["mut"]["kind"] == "point" and m["mut"]["how"] in ("rand", "other")) for m in ms)
            and len({m.get("bseed", 0) for m in ms if m.get("bseed", 0) != 0}) == 0)


def c02_scaled(tier, seed):
    def f():
        # input sequences of different lengths beyond the chunk limit (the shortest ending exactly on a chunk boundary): nothing is
        # accepted that was not examined
        b = stages.api_stage("C02", "batch", tier, seed, groups=("rist",), scale="2:256", scale_min=0, limit=30 if Q(tier) else 400,
                             filter_fn=lambda s: s["sc"]["skew"] != [0, 0, 0] or s["expect"]["verify"] == "ok",
                             must_fn=lambda s: s["sc"]["skew"] != [0, 0, 0])
        b.name = "api:batch@256"
        return b
    return f


def run_C02(tier, seed):
    q = Q(tier)
    # (a) design level: code-shaped verifier == published relation, exhaustively over a small field, with seeded-bug negatives
    cfgs = [(5, 2, 2, 1, "verifier")] if q else [(7, 2, 2, 1, "verifier"), (5, 1, 8, 2, "verifier"), (5, 4, 2, 2, "verifier"), (5, 2, 4, 1, "verifier")]
    negs = [(7, 2, 4, 1, "verifier", b, "T1") for b in (["dsum_cap", "radix3"] if q else ["dsum_cap", "radix3", "v_ynm", "no_y"])]

    def relation():
        # (b) the code's final MSM against the published relation at the actual challenges, in 252-bit arithmetic
        bound = 16 if q else 64
        picks = []
        for fam, cnt in (("alter", 14 if q else 80), ("capacity", 8 if q else 40), ("batch", 8 if q else 40), ("promise", 6 if q else 40)):
            sc, _ = stages.pick_scenarios(fam, tier, seed, lambda s: verifies(s) and nm_of(s) <= bound and s["sc"]["mode"] != "RecoverOnly", cnt, prop="C02")
            picks += sc
        # proofs with surplus or missing folding rounds must never reach the final check with a mismatched round count
        rounds, _ = stages.pick_scenarios("alter", tier, seed, lambda s: s["sc"]["members"][0]["mut"]["kind"] == "rounds" and s["sc"]["mode"] == "VerifyOnly", 40, prop="C02")
        return stages.trace_stage("C02", "relation", picks + rounds, seed, arith=True)

    def forged():
        # adversarial proofs from the independent guard-free prover (each validated by TLC against the specification's
        # prover): out-of-range and below-promise values must be rejected
        a1 = stages.api_stage("C02", "forge", tier, seed)
        fg, _ = stages.pick_scenarios("forge", tier, seed, lambda s: nm_of(s) <= 16 and len(s["sc"]["members"]) == 1, 10 if q else 100, prop="C02")
        a2 = stages.trace_stage("C02", "forged-proofs", fg, seed, module="TraceProve", consts={"Strict": "FALSE", "CheckArith": "TRUE", "CrossFresh": "FALSE"}, calls="prove")
        a3 = stages.trace_stage("C02", "forged-verify", fg, seed, module="TraceVerify", calls="verify")
        return [a1, a2, a3]
    r = par(
        lambda: stages.algebra_stage("C02", cfgs, negs),
        relation,
        # (c) verdict agreement on every single alteration (both groups) and on mixed batches
        lambda: stages.api_stage("C02", "alter", tier, seed),
        lambda: stages.api_stage("C02", "capacity", tier, seed, groups=("fm",)),
        forged,
        # the relation is only meaningful over independent generators: every generator the verifier weights is the documented,
        # pairwise distinct derivation (up to 1024 parties)
        lambda: stages.generators_stage("C02", tier, seed, threads=0),
        lambda: stages.api_stage("C02", "batch", tier, seed, groups=("fm",)),
        c02_scaled(tier, seed),
        # statements edited after construction (public fields): no promise entry for some commitment, or surplus entries; the
        # independent prover builds the proof most favourable to a verifier that pairs commitments with promise entries
        lambda: stages.cases_stage("C02", "MC_Malformed", tier, seed, invariants="Sound", consts="PairAndStop = FALSE",
                                   negative=("PairAndStop = TRUE", "Sound")))
    res = []
    for x in r:
        res += x if isinstance(x, list) else [x]
    return res


def run_C03(tier, seed):
    neg = [{"name": "first_chunk_only", "loop": False, "whole": False, "expect": "C03"},
           {"name": "loop_without_whole_batch_consistency", "loop": True, "whole": False, "expect": "C03"}]

    def scaled():
        b = stages.api_stage("C03", "batch", tier, seed, groups=("rist",), scale="2:256", scale_min=0,
                             limit=400 if Q(tier) else 5000,
                             must_fn=lambda s: s["sc"]["skew"] != [0, 0, 0] or any(m["n"] == 64 or m["m"] >= 16 for m in s["sc"]["members"]) or any(m.get("bseed") == 7 for m in s["sc"]["members"]))
        b.name = "api:batch@256"
        return b

    def combination():
        # the batch equation is a proper random combination: non-zero, pairwise distinct, response-bound weights on every member
        tb, _ = stages.pick_scenarios("batch", tier, seed, lambda s: reaches_msm(s) and nm_of(s) <= 16, 8 if Q(tier) else 80, prop="C03")
        return stages.trace_stage("C03", "combination", tb, seed, module="TraceVerify", calls="verify")
    # every behaviour at model scale on both groups, then with every model chunk expanded to the real chunk size
    a = stages.api_stage("C03", "batch", tier, seed, negative=neg, limit=1200 if Q(tier) else None)
    res = [a] + par(
        scaled, combination,
        lambda: stages.api_stage("C03", "long", tier, seed),          # 21-40 members, many model chunks, mixed kinds, all modes
        # the orchestration with batch size, CHUNK SIZE, input lengths, validity and class of every member symbolic
        lambda: stages.apalache_stage("C03", "BatchUnbounded", "C03", 12, cinit="CInit", negative_cinits=("CInitLoopOnly", "CInitFirstChunk"),
                                      note="K in 0..10, chunk size in 1..10, the three input lengths, validity and bit-length class of every member are symbolic"))
    if not Q(tier):
        # a batch above the chunk limit, chunk by chunk through the trace specification (each chunk its own call, weights, final check)
        res.append(stages.long_batch_stage("C03", "long-chunks", 262, seed, mode="RecoverAndVerify"))
        # the same orchestration for EVERY batch size and chunk size: an inductive invariant discharged by the proof system
        res.append(stages.tlaps_stage("C03", "BatchProof", "Spec => []C03", negative_edits=[
            ("IF hi < k THEN pc' = \"chunk\" /\\ res' = res ELSE pc' = \"done\" /\\ res' = \"Ok\"",
             "IF FALSE THEN pc' = \"chunk\" /\\ res' = res ELSE pc' = \"done\" /\\ res' = \"Ok\""),
            ("\\/ nt # k \\/ ~Consistent(1, k)\n            THEN", "\\/ nt # k\n            THEN")]))
    return res


def run_C05(tier, seed):
    res = [stages.api_stage("C05", "alter", tier, seed)]
    # the unaltered triple is verified first and the altered one right after it, in the same process (nothing remembered from the first
    # call may excuse the second)
    res.append(stages.api_stage("C05", "bind", tier, seed))
    # the same alterations inside batches: a member that disagrees on a generator, bit length or degree, at any position
    dis = lambda s: any(m["v"]["pgH"] != 0 or m["v"]["pgG"] != 0 or m["v"]["n"] != s["sc"]["members"][0]["v"]["n"] or m["v"]["t"] != s["sc"]["members"][0]["v"]["t"] for m in s["sc"]["members"])
    res.append(stages.api_stage("C05", "batch", tier, seed, groups=("fm",), filter_fn=dis))
    # a repeated triple whose second copy is altered (context, a scalar) must be rejected like any other
    rep_ = lambda s: sum(1 for m in s["sc"]["members"] if m.get("bseed") == 7) >= 2
    res.append(stages.api_stage("C05", "batch", tier, seed, filter_fn=rep_))
    # alterations in two members must not be able to offset each other: proper weights on every batch (C08's check)
    tb, _ = stages.pick_scenarios("batch", tier, seed, lambda s: reaches_msm(s) and nm_of(s) <= 16, 6 if Q(tier) else 60, prop="C05")
    res.append(stages.trace_stage("C05", "weights", tb, seed, module="TraceVerify", calls="verify"))
    return res


def run_C06(tier, seed):
    res = [stages.api_stage("C06", "witness", tier, seed)]
    # the guard sequence against the witness relation with every value and promise an arbitrary 64-bit number
    res.append(stages.apalache_stage("C06", "GuardsUnbounded", "Both", 2, negative_inv="C06Wrong",
                                     note="values and promises are symbolic integers in 0..2^64-1 (promise -1 = absent), bit lengths 1..64, up to 4 commitments, every witness deviation"))
    # the prover's own computation on accepted witnesses: static scalars are the bits of value - promise
    q = Q(tier)
    sc, _ = stages.pick_scenarios("witness", tier, seed, lambda s: s["expect"]["prove"] == "ok" and nm_of(s) <= 16, 10 if q else 100, prop="C06")
    res.append(stages.trace_stage("C06", "bits", sc, seed, module="TraceProve", consts=TP_CONSTS, calls="prove"))
    res.append(c06_sizes(tier, seed))
    return res


def c06_sizes(tier, seed):
    # valid witnesses at sizes beyond the everyday ones (bits*aggregation up to 4096) are proved, not refused
    st = stages.api_stage("C06", "complete", tier, seed, groups=("rist",), filter_fn=lambda s: nm_of(s) >= 512)
    st.name = "api:complete@large"
    return st


def run_C07(tier, seed):
    q = Q(tier)
    res = [stages.api_stage("C07", "promise", tier, seed)]
    # prover side: value == promise accepted, value < promise refused, at every position of an aggregate
    res.append(stages.api_stage("C07", "witness", tier, seed, groups=("fm",)))
    # proofs from the independent (guard-free) prover: value >= 2^bits under a promise; accepted iff the relation holds
    # AND the promise fits the bit length
    res.append(stages.api_stage("C07", "forge", tier, seed))
    # the same inside batches expanded to the real chunk size (a batch of exactly one full chunk, and one beyond it)
    fb = stages.api_stage("C07", "forge", tier, seed, groups=("rist",), scale="2:256", scale_min=0, filter_fn=lambda s: len(s["sc"]["members"]) >= 2)
    fb.name = "api:forge@256"
    res.append(fb)
    # a triple and, in the same batch, the same triple under a substituted (in-range) promise: each member is judged under ITS promises
    res.append(stages.api_stage("C07", "batch", tier, seed, filter_fn=lambda s: any(m.get("bseed") == 7 and m["v"]["proms"] != m["proms"] for m in s["sc"]["members"])))
    # the coefficient on H carries every promise: final-MSM scalars against the published relation
    sc, _ = stages.pick_scenarios("promise", tier, seed, lambda s: verifies(s) and nm_of(s) <= 16, 10 if q else 100, prop="C07")
    res.append(stages.trace_stage("C07", "promise-term", sc, seed, module="TraceVerify", calls="verify"))
    return res


def run_C04(tier, seed):
    q = Q(tier)
    res = [stages.transcript_stage("C04", tier)]
    # TV-2: pairs of verifier runs differing in exactly one datum; every challenge from the first affected one on must change
    sc, r = stages.pick_scenarios("bind", tier, seed, lambda s: s["expect"]["prove"] == "ok", 10000, prop="C04")
    st = stages.trace_stage("C04", "pairs", sc, seed, module="TraceTranscriptPair", consts={}, calls="verify", arith=False, per_file=40)
    st.states += r["distinct"]
    st.transitions += r["generated"]
    res.append(st)
    # TV-1: at every challenge of every prover and verifier run, everything that precedes it has been absorbed (token mode)
    # (always including proofs that carry dozens of surplus folding rounds: every attached L_j / R_j is absorbed, however many)
    sc2, _ = stages.pick_scenarios("alter", tier, seed, verifies, 150 if q else 1500, prop="C04",
                                   must=lambda s: s["sc"]["members"][0]["mut"]["kind"] == "rounds" and s["sc"]["members"][0]["mut"]["j"] >= 61, must_count=8 if q else 40)
    sc3, _ = stages.pick_scenarios("complete", tier, seed, lambda s: honest(s) and nm_of(s) <= 128, 100 if q else 1000, prop="C04")
    # batches whose members live in different contexts, in every mode (each proof's challenges come from ITS transcript)
    sc4, _ = stages.pick_scenarios("recover", tier, seed, lambda s: len(s["sc"]["members"]) >= 2 and len({m["label"] for m in s["sc"]["members"]}) >= 2, 60 if q else 600, prop="C04")
    # batches in which one member's statement names other generators (H, a G_k), also as the strictly largest member in a later
    # position: either the batch is refused before any challenge, or that member's challenges depend on ITS generators
    # (statements whose cached generator ENCODINGS alone were altered are left to the API-level stage: which of the two the
    #  statement "declares" is then ambiguous, and the trace compares with the encodings of the points)
    cache_only = lambda s: any(m["v"]["pgH"] == 2 or m["v"]["pgG"] == 200 for m in s["sc"]["members"])
    dis = lambda s: any(m["v"]["pgH"] != 0 or m["v"]["pgG"] != 0 for m in s["sc"]["members"]) and not cache_only(s)
    big_later = lambda s: any(x > 0 and (m["v"]["pgH"] != 0 or m["v"]["pgG"] != 0) and m["m"] > max(o["m"] for y, o in enumerate(s["sc"]["members"]) if y != x)
                              for x, m in enumerate(s["sc"]["members"]))
    sc5, _ = stages.pick_scenarios("batch", tier, seed, dis, 40 if q else 400, prop="C04", must=big_later, must_count=10 if q else 60)
    res.append(stages.trace_stage("C04", "dep-verify", sc2 + sc3 + sc4 + sc5, seed, module="TraceVerify", consts=TV_TOKEN, calls="verify", arith=False, per_file=40))
    res.append(stages.trace_stage("C04", "dep-prove", sc3, seed, module="TraceProve", consts={"Strict": "FALSE", "CheckArith": "FALSE", "CrossFresh": "FALSE"}, calls="prove", arith=False, per_file=40))
    # RP: honest proofs re-verified under a perturbed context are rejected
    res.append(stages.api_stage("C04", "bind", tier, seed))
    # ... and batches in which a member is handed in with another context than it was made in (also as the repetition of its neighbour)
    other_ctx = lambda s: any(m["v"]["label"] != m["label"] for m in s["sc"]["members"])
    res.append(stages.api_stage("C04", "batch", tier, seed, groups=("fm",), filter_fn=lambda s: dis(s) or cache_only(s) or other_ctx(s)))
    # beyond the chunk limit every member is still verified in ITS context (members made in different contexts, at 256-scale)
    ctxs = lambda s: len({m["label"] for m in s["sc"]["members"]}) >= 2 and s["sc"]["skew"] == [0, 0, 0]
    big = stages.api_stage("C04", "batch", tier, seed, groups=("rist",), scale="2:256", scale_min=0, limit=40 if q else 400,
                           filter_fn=lambda s: ctxs(s) or (s["sc"]["skew"] == [0, 0, 0] and (dis(s) or cache_only(s))),
                           # (always: two-member batches with a disagreeing member - expanded, a batch of exactly one full chunk)
                           # (and always: honest batches of three and more members made in different contexts - more than one chunk)
                           must_fn=lambda s: (len(s["sc"]["members"]) == 2 and dis(s)) or (ctxs(s) and s["expect"]["verify"] == "ok" and len(s["sc"]["members"]) >= 3))
    big.name = "api:batch@256"
    res.append(big)
    return res


def run_C08(tier, seed):
    q = Q(tier)

    def weights_traces():
        # provenance and homogeneity of the weights actually used, on multi-member batches, in 252-bit arithmetic
        # (always: batches holding the same triple twice with one response altered - equal points, different responses: the weight
        #  rules on the transcript operations apply even where the arithmetic on the final check is skipped)
        dupx = lambda s: any(m.get("bseed") == 7 and m["mut"]["kind"] == "scalar" for m in s["sc"]["members"]) and any(m.get("bseed") == 7 and m["mut"]["kind"] == "none" for m in s["sc"]["members"])
        sc, _ = stages.pick_scenarios("batch", tier, seed, lambda s: (reaches_msm(s) or dupx(s)) and nm_of(s) <= 16, 14 if q else 150, prop="C08", must=dupx, must_count=3)
        # ... preceded, in the same process and thread, by batches that are refused half-way (a later member's point is the identity
        # or does not decode): what such a call leaves behind must not enter the weights of the next one
        ab, _ = stages.pick_scenarios("batch", tier, seed, lambda s: s["expect"]["prove"] == "ok" and s["sc"]["skew"] == [0, 0, 0] and nm_of(s) <= 16 and len(s["sc"]["members"]) >= 2
                                      and any(x >= 1 and m["mut"]["kind"] == "point" and m["mut"]["how"] in ("identity", "undecodable") for x, m in enumerate(s["sc"]["members"]))
                                      and not cache_edit(s), 3 if q else 20, prop="C08")
        sc = ab + sc
        sc2, _ = stages.pick_scenarios("recover", tier, seed, lambda s: verifies(s) and len(s["sc"]["members"]) >= 2 and s["sc"]["mode"] != "RecoverOnly" and s["sc"]["members"][0]["t"] == 6, 8 if q else 60, prop="C08")
        return stages.trace_stage("C08", "weights", sc + sc2, seed, module="TraceVerify", calls="verify")

    def response_pairs():
        # a response scalar changed => the proof's contribution to the weight transcript and all weights change
        sc3, r = stages.pick_scenarios("bind", tier, seed, lambda s: s["sc"]["wdiff"], 10000, prop="C08")
        return stages.trace_stage("C08", "response-pairs", sc3, seed, module="TraceTranscriptPair", consts={}, calls="verify", arith=False, per_file=40)
    res = par(
        lambda: stages.weights_stage("C08"),
        lambda: stages.simple_mc_stage("C08", "MC_Transcript", stages.transcript_cfg(), [("weight_blind_to_" + o, stages.transcript_cfg(omit=o), "WeightBound") for o in ("r1", "s1", "d1")], name="weight-binding"),
        weights_traces, response_pairs,
        lambda: stages.api_stage("C08", "batch", tier, seed, groups=("fm",)),
        # long batches of distinct proofs (more members than the weight generator has 64-byte blocks, more than one chunk): every
        # member of every chunk gets its own non-zero output of a generator built after all members of that chunk contributed
        lambda: stages.long_batch_stage("C08", "long-weights", 258 if q else 515, seed))
    if not q:
        res.append(stages.long_batch_stage("C08", "long-arith", 70, seed, weights_only=False, mode="RecoverAndVerify"))
    return res


def run_C13(tier, seed):
    q = Q(tier)
    res = [stages.transcript_stage("C13", tier, omits=(), extra_negs=[("rng_not_rebuilt", stages.transcript_cfg(rebuild=False), "SeesAll")])]
    # every degree, seeded and unseeded, several sizes: nonces read off the proof points, provenance, distinctness, cross-run freshness
    # (always: pairs proved one right after the other, on one thread, under two different seeds - also seeds that differ in one byte only)
    sc, _ = stages.pick_scenarios("hedge", tier, seed, lambda s: s["sc"]["members"][0]["rng"] == "chacha" and s["sc"]["members"][1]["rvar"] == 0 and not s["sc"]["samecommit"], 8 if q else 80, prop="C13",
                                  must=lambda s: s["sc"]["members"][0]["seed"] != 0 and s["sc"]["members"][1]["seed"] not in (0, s["sc"]["members"][0]["seed"]), must_count=4)
    # the same inputs proved twice with different external RNG streams (seeded and unseeded): all such pairs
    rv, _ = stages.pick_scenarios("hedge", tier, seed, lambda s: s["sc"]["members"][0]["rng"] == "chacha" and s["sc"]["members"][1]["rvar"] == 1, 1000, prop="C13")
    sc = rv + sc
    # a stuck / constant / short-period external RNG: the nonces of ONE proof stay non-zero and pairwise distinct (every draw comes
    # from a generator rebuilt on a transcript that has moved on)
    bad, _ = stages.pick_scenarios("hedge", tier, seed, lambda s: s["sc"]["members"][0]["rng"] in ("zero", "const", "p2") and not s["sc"]["samecommit"]
                                   and s["sc"]["members"][0] == s["sc"]["members"][1], 6 if q else 40, prop="C13")
    sc = sc + bad
    sc2, _ = stages.pick_scenarios("complete", tier, seed, lambda s: honest(s) and nm_of(s) <= (8 if q else 32), 14 if q else 150, prop="C13")
    res.append(stages.trace_stage("C13", "nonces", sc + sc2, seed, module="TraceProve", consts={"Strict": "FALSE", "CheckArith": "TRUE", "CrossFresh": "TRUE"}, calls="prove"))
    # long proofs (more folding rounds than the arithmetic replay covers, up to bits*aggregation = 4096): the nonces of EVERY round,
    # read off the outputs - non-zero, pairwise distinct, each from a generator rebuilt after the preceding round was absorbed
    big, _ = stages.pick_scenarios("complete", tier, seed, lambda s: honest(s) and nm_of(s) >= 256, 3 if q else 40, prop="C13",
                                   must=lambda s: nm_of(s) >= 1024, must_count=2 if q else 10)
    res.append(stages.trace_stage("C13", "long-nonces", big, seed, module="TraceProve", calls="prove", nonces=True, per_file=1,
                                  consts={"Strict": "FALSE", "CheckArith": "FALSE", "CrossFresh": "FALSE", "NoncesOnly": "TRUE"}))
    return res


def run_C14(tier, seed):
    q = Q(tier)
    res = [stages.transcript_stage("C14", tier, omits=(), extra_negs=[("no_witness_rekey", stages.transcript_cfg(rekey=False), "Hedged"),
                                                                    ("rng_not_rebuilt", stages.transcript_cfg(rebuild=False), "SeesAll")])]
    # pairs of runs under faulty external RNGs: identical runs reproduce, runs differing in one input share no RNG-derived nonce
    # stratified: every kind of single-input difference (none, context, a promise, a value, the seed, the RNG stream) x
    # seeded/unseeded x every fault model is represented
    def kind_of(s):
        a, b = s["sc"]["members"]
        diff = [k for k in ("label", "proms", "vals", "seed", "rvar") if a[k] != b[k]]
        return (diff[0] if diff else "identical", a["seed"] != 0, a["rng"], a["m"])
    allh, _ = stages.pick_scenarios("hedge", tier, seed, lambda s: s["sc"]["members"][0]["rng"] != "chacha" and not s["sc"]["samecommit"], 100000, prop="C14")
    import random as _r
    rng_ = _r.Random(seed)
    strata = {}
    for s_ in allh:
        strata.setdefault(kind_of(s_), []).append(s_)
    sc = [rng_.choice(v) for k, v in sorted(strata.items()) if (not q) or k[2] in ("zero", "p2")]
    if not q:
        sc += rng_.sample(allh, min(len(allh), 150))
    res.append(stages.trace_stage("C14", "hedged-pairs", sc, seed, module="TraceProve", consts={"Strict": "FALSE", "CheckArith": "TRUE", "CrossFresh": "TRUE"}, calls="prove"))
    # rekey-with-witness and rebuild-after-absorption on every generator, in bulk (token mode)
    # (always including witnesses of several thousand bytes: many commitments times a high extension degree)
    wbytes = lambda s: max(m["m"] * (8 + 32 * m["t"]) for m in s["sc"]["members"])
    sc2, _ = stages.pick_scenarios("complete", tier, seed, lambda s: honest(s) and nm_of(s) <= 4096, 120 if q else 1200, prop="C14",
                                   must=lambda s: wbytes(s) > 4096 or nm_of(s) >= 128 or s["sc"]["members"][0]["m"] >= 16, must_count=10 if q else 60)
    res.append(stages.trace_stage("C14", "rekey", sc2, seed, module="TraceProve", consts={"Strict": "FALSE", "CheckArith": "FALSE", "CrossFresh": "FALSE"}, calls="prove", arith=False, per_file=40))
    res.append(stages.api_stage("C14", "hedge", tier, seed))
    return res


def run_C11(tier, seed):
    q = Q(tier)
    res = [stages.generators_stage("C11", tier, seed, threads=4 if q else 16)]
    # the verifier's and prover's use of the table: position p carries generator (kind, party, index) in interleaved order
    sc, _ = stages.pick_scenarios("capacity", tier, seed, lambda s: nm_of(s) <= 16, 10 if q else 80, prop="C11")
    res.append(stages.trace_stage("C11", "layout", sc, seed, module="TraceVerify", consts={"Strict": "FALSE", "CheckArith": "TRUE", "CheckLayout": "TRUE"}, calls="verify"))
    res.append(stages.trace_stage("C11", "commit-layout", sc, seed, module="TraceProve", consts=TP_CONSTS, calls="prove"))
    return res


def run_C15(tier, seed):
    q = Q(tier)
    res = [stages.cases_stage("C15", "MC_Codec", tier, seed, invariants="C15 Total")]
    # the same decoder machine with the length symbolic: acceptance <=> closed form for byte strings of EVERY length
    res.append(stages.apalache_stage("C15", "CodecUnbounded", "Both", 16, negative_inv="C15Wrong",
                                     note="total length, first byte and non-canonical chunk index are symbolic naturals"))
    # impl -> spec: structured transformations of well-formed encodings, every decoder decision validated by TLC
    res.append(stages.codec_trace_stage("C15", tier, seed))
    # every proof the prover can output: length formula, decode(encode(p)) == p, encode(decode(b)) == b
    res.append(stages.api_stage("C15", "roundtrip", tier, seed))
    # the scalar slots, value by value: the family a limb-wise comparison with the group order can get wrong, and pairs of slots
    res.append(stages.cases_stage("C15", "MC_Scalar", tier, seed, invariants="Canonical", consts="LastLimbOr = FALSE",
                                  negative=("LastLimbOr = TRUE", "Canonical")))
    return res


def run_C16(tier, seed):
    q = Q(tier)
    # uniformly random strings of every length, with a random and with a plausible first byte (alone: it also judges time)
    raw = [{"op": "decode_raw", "len": ln, "fbmode": fm, "expect": "nopanic"} for ln in range(0, 1201 if not q else 700) for fm in (0, 1)]
    raw += [{"op": "decode_scale", "k": k, "expect": "nopanic"} for k in (16000, 32000)]      # ~1 MiB vs ~4 MiB, ~2 MiB vs ~8 MiB
    # memory in proportion to the input: a full chunk of honest proofs around one proof with thousands of surplus rounds
    raw += [{"op": "alloc_bound", "members": mm, "rounds": rr, "expect": "nopanic"} for (mm, rr) in ((255, 4096), (40, 20000))]
    rawst = stages.raw_cases_stage("C16", "random-strings", raw, seed)
    res = par(
        lambda: stages.cases_stage("C16", "MC_Codec", tier, seed, invariants="C15 Total"),
        lambda: stages.apalache_stage("C16", "CodecUnbounded", "Terminated", 16),      # decoding ends within 14 steps whatever the length
        # honest proofs at sizes beyond the everyday ones (up to 512 commitments, capacity 1024) must not bring the verifier down
        lambda: stages.api_stage("C16", "complete", tier, seed, groups=("rist",), filter_fn=lambda s: s["sc"]["members"][0]["m"] >= 16),
        # hostile proof shapes against every statement shape and mode: release (overflow checks on) and dev profile
        lambda: stages.api_stage("C16", "hostile", tier, seed),
        lambda: stages.api_stage("C16", "alter", tier, seed, groups=("rist",)),
        # whatever the validating constructors let through must be safe to verify with
        lambda: stages.cases_stage("C16", "MC_Constructors", tier, seed, invariants="Documented", groups=("fm",)),
        lambda: stages.api_stage("C16", "capacity", tier, seed, groups=("fm",), profile="dev", limit=200 if q else None),
        lambda: stages.api_stage("C16", "batch", tier, seed, groups=("fm",), profile="dev", limit=250 if q else None))
    res.insert(2, rawst)
    d = stages.api_stage("C16", "hostile", tier, seed, groups=("fm",) if q else ("fm", "rist"), profile="dev", limit=150 if q else None)
    d.name += "@dev"
    res.append(d)
    big = stages.api_stage("C16", "batch", tier, seed, groups=("rist",), scale="2:256", scale_min=0, limit=60 if q else 600)
    big.name = "api:batch@256"
    res.append(big)
    # no panic either when several threads use one fresh parameter object for the first time, or verify at the same instant
    res.append(stages.race_stage("C16", tier, seed))
    return res


def run_C18(tier, seed):
    once = lambda atomic: f"CONSTANTS Threads = {{t1, t2, t3}} Atomic = {atomic}\nSPECIFICATION Spec\nINVARIANTS SingleInit SeesFull NoStuck\nPROPERTY Terminates\nCHECK_DEADLOCK FALSE\n"
    res = [stages.simple_mc_stage("C18", "MC_Once", once("TRUE"), [("check_then_act_initialisation", once("FALSE"), "SingleInit")])]
    res.append(stages.threads_stage("C18", tier, seed))
    return res


STRICT_P = {"Strict": "TRUE", "CheckArith": "TRUE", "CrossFresh": "FALSE"}
STRICT_V = {"Strict": "TRUE", "CheckArith": "TRUE", "CheckLayout": "TRUE"}


def run_C19(tier, seed):
    q = Q(tier)
    res = [stages.vectors_stage("C19", seed), stages.nonce_stage("C19"), stages.generators_stage("C19", tier, seed, threads=0)]
    # strict mode: labels, lengths, order of every transcript operation, rekey label, weight label, table layout, and
    # the seed-derived nonces at (label, j, k) - a consistent prover+verifier change is a deviation from the specification
    sc, _ = stages.pick_scenarios("complete", tier, seed, lambda s: honest(s) and nm_of(s) <= (8 if q else 32), 14 if q else 150, prop="C19")
    sc2, _ = stages.pick_scenarios("recover", tier, seed, lambda s: honest(s) and nm_of(s) <= 16, 8 if q else 80, prop="C19")
    res.append(stages.trace_stage("C19", "strict-prove", sc + sc2, seed, module="TraceProve", consts=STRICT_P, calls="prove"))
    res.append(stages.trace_stage("C19", "strict-verify", sc + sc2, seed, module="TraceVerify", consts=STRICT_V, calls="verify"))
    # an independent straight-from-the-paper prover (validated by TLC in strict mode, run by run): the library accepts its
    # proofs and recovers its masks, on Ristretto and on the free-module group
    inr = lambda s: s["expect"]["verify"] == "ok"
    res.append(stages.api_stage("C19", "forge", tier, seed, filter_fn=inr))
    fg, _ = stages.pick_scenarios("forge", tier, seed, lambda s: inr(s) and nm_of(s) <= 16, 10 if q else 80, prop="C19")
    res.append(stages.trace_stage("C19", "reference-prover", fg, seed, module="TraceProve", consts=STRICT_P, calls="prove"))
    # what a 0.4.0 verifier accepts in one call is still accepted in one call: mixed sizes and capacities beyond the chunk limit, large capacities
    mixed = lambda s: s["expect"]["verify"] == "ok" and s["sc"]["skew"] == [0, 0, 0] and len({m["m"] for m in s["sc"]["members"]}) >= 2
    big = stages.api_stage("C19", "batch", tier, seed, groups=("rist",), scale="2:256", scale_min=0, limit=12 if q else 200, filter_fn=mixed)
    big.name = "api:batch@256"
    res.append(big)
    res.append(stages.api_stage("C19", "capacity", tier, seed, groups=("rist",), filter_fn=lambda s: any(m["cap"] >= 64 or m["v"]["cap"] >= 64 for m in s["sc"]["members"])))
    # statements a 0.4.0 verifier accepts although they look unusual: the same commitment at two positions, zero blinding components
    res.append(stages.api_stage("C19", "complete", tier, seed, filter_fn=lambda s: any(m.get("eqb", 0) or m.get("zb", 0) for m in s["sc"]["members"])))
    return res


def run_C20(tier, seed):
    mem = lambda plain: f"CONSTANTS Plain = {'TRUE' if plain else 'FALSE'}\nSPECIFICATION Spec\nINVARIANT NoLeak\nCHECK_DEADLOCK FALSE\n"
    res = [stages.simple_mc_stage("C20", "MC_Memory", mem(False), [("unwiped_temporary_copy", mem(True), "NoLeak")])]
    # the dev profile shows what the source says (copies the optimiser may elide), the release profile what ships
    res.append(stages.memory_stage("C20", tier, seed, "dev"))
    res.append(stages.memory_stage("C20", tier, seed, "release"))
    return res


def run_C17(tier, seed):
    return [stages.cases_stage("C17", "MC_Constructors", tier, seed, invariants="Documented")]


def run_C09(tier, seed):
    q = Q(tier)
    res = [stages.api_stage("C09", "recover", tier, seed, filter_fn=lambda s: all(m["mut"]["kind"] == "none" for m in s["sc"]["members"]))]
    res.append(stages.algebra_stage("C09", [(5, 2, 1, 2, "prover")] if q else [(7, 4, 1, 2, "prover"), (5, 2, 1, 3, "prover")]))
    # the seed-derived nonces enter A, L_j, R_j, A1, B at index (label, j, k) exactly as the reference derivation says
    sc, _ = stages.pick_scenarios("recover", tier, seed, lambda s: honest(s) and len(s["sc"]["members"]) == 1 and s["sc"]["members"][0]["seed"] != 0 and nm_of(s) <= (8 if q else 64), 12 if q else 100, prop="C09")
    res.append(stages.trace_stage("C09", "seed-nonces", sc, seed, module="TraceProve", consts=TP_CONSTS, calls="prove"))
    # verifier side: the recovered value solves the recovery equation at the recorded challenges with the seed-derived nonces
    sv, _ = stages.pick_scenarios("recover", tier, seed, lambda s: s["expect"]["verify"] == "ok" and s["sc"]["mode"] == "RecoverAndVerify" and nm_of(s) <= 16
                                  and any(m["v"]["seed"] != 0 for m in s["sc"]["members"]), 14 if q else 120, prop="C09")
    res.append(stages.trace_stage("C09", "recovery-equation", sv, seed, module="TraceVerify", calls="verify"))
    # masks stay aligned and exact beyond the chunk limit
    # batches of 21-40 members mixing aggregated, seeded (either seed, either side) and plain members: masks exact and aligned
    res.append(stages.api_stage("C09", "long", tier, seed))
    # ... and expanded to the real chunk size: a dozen chunks and more, the last one partial (thousands of members, every mask in place)
    many = stages.api_stage("C09", "long", tier, seed, groups=("rist",), scale="2:256", scale_min=0, limit=3 if q else 24,
                            filter_fn=lambda s: s["sc"]["mode"] == "RecoverAndVerify")
    many.name = "api:long@256"
    res.append(many)
    big = stages.api_stage("C09", "batch", tier, seed, groups=("rist",), scale="2:256", scale_min=0, limit=40 if q else 400,
                           filter_fn=lambda s: s["sc"]["mode"] == "RecoverAndVerify" and s["expect"]["verify"] == "ok" and "exact" in s["expect"]["masks"],
                           must_fn=lambda s: len(s["sc"]["members"]) >= 5)          # (always: batches of three chunks and more)
    big.name = "api:batch@256"
    res.append(big)
    return res


def run_C10(tier, seed):
    q = Q(tier)
    res = [stages.api_stage("C10", "recover", tier, seed)]
    # wrong seed / seed on an unseeded proof: the value returned is the solution of the recovery equation for THAT seed,
    # and the final-MSM scalars (hence the verdict) do not involve the seed at all
    sv, _ = stages.pick_scenarios("recover", tier, seed, lambda s: s["expect"]["verify"] == "ok" and s["sc"]["mode"] == "RecoverAndVerify" and nm_of(s) <= 16
                                  and any(m["v"]["seed"] != 0 and m["v"]["seed"] != m["seed"] for m in s["sc"]["members"]), 10 if q else 100, prop="C10")
    res.append(stages.trace_stage("C10", "wrong-seed", sv, seed, module="TraceVerify", calls="verify"))
    # RecoverOnly: no final check, but every returned mask must solve the same recovery equation
    ro, _ = stages.pick_scenarios("recover", tier, seed, lambda s: s["expect"]["verify"] == "ok" and s["sc"]["mode"] == "RecoverOnly" and nm_of(s) <= 16
                                  and any(m["v"]["seed"] != 0 for m in s["sc"]["members"]), 10 if q else 100, prop="C10")
    res.append(stages.trace_stage("C10", "recover-only", ro, seed, module="TraceVerify", calls="verify"))
    # beyond the chunk limit: both recovering modes return the same, aligned masks (right seed, wrong seed, no seed in any order)
    res.append(stages.api_stage("C10", "long", tier, seed))
    big = stages.api_stage("C10", "recover", tier, seed, groups=("rist",), scale="2:256", scale_min=0, limit=30 if q else 400,
                           filter_fn=lambda s: len(s["sc"]["members"]) >= 2 and s["sc"]["mode"] != "VerifyOnly" and s["expect"]["verify"] == "ok" and bool(s["sc"]["fill"]),
                           # (always: an aggregated member ahead of two or more seeded ones)
                           must_fn=lambda s: len(s["sc"]["members"]) >= 3 and s["sc"]["members"][0]["m"] > 1 and sum(1 for m in s["sc"]["members"][1:] if m["v"]["seed"] != 0) >= 2)
    big.name = "api:recover@256"
    res.append(big)
    return res


def run_C12(tier, seed):
    q = Q(tier)
    res = [stages.api_stage("C12", "capacity", tier, seed)]
    # static scalar vector = 2*n*cap_max entries, zero beyond the largest member, generator j of party i independent of capacity
    sc, _ = stages.pick_scenarios("capacity", tier, seed, lambda s: nm_of(s) <= 16, 12 if q else 100, prop="C12")
    res.append(stages.trace_stage("C12", "padding", sc, seed, module="TraceVerify", consts={"Strict": "FALSE", "CheckArith": "TRUE", "CheckLayout": "TRUE"}, calls="verify"))
    res.append(stages.simple_mc_stage("C12", "MC_Generators", "CONSTANTS MaxParty = 32 MaxIdx = 64\nSPECIFICATION Spec\nINVARIANTS Injective Layout CapIndep\nCHECK_DEADLOCK FALSE\n", workers=2))
    # mixtures of capacities and aggregation factors beyond the chunk limit: every chunk selects tables and padding from ITS largest
    # member (a chunk may hold none of the batch-wide largest members)
    mixed = lambda s: s["expect"]["verify"] == "ok" and s["sc"]["skew"] == [0, 0, 0] and len({(m["m"], m["v"]["cap"]) for m in s["sc"]["members"]}) >= 2
    big = stages.api_stage("C12", "batch", tier, seed, groups=("rist",), scale="2:256", scale_min=0, limit=20 if q else 300, filter_fn=mixed)
    big.name = "api:batch@256"
    res.append(big)
    res.append(stages.api_stage("C12", "long", tier, seed, groups=("rist",)))
    return res


CHECKS = {
    "C01": {"run": run_C01, "level": "model_checking"},
    "C02": {"run": run_C02, "level": "model_checking"},
    "C03": {"run": run_C03, "level": "model_checking"},
    "C04": {"run": run_C04, "level": "model_checking"},
    "C05": {"run": run_C05, "level": "model_checking"},
    "C08": {"run": run_C08, "level": "model_checking"},
    "C11": {"run": run_C11, "level": "model_checking"},
    "C13": {"run": run_C13, "level": "model_checking"},
    "C15": {"run": run_C15, "level": "model_checking"},
    "C16": {"run": run_C16, "level": "model_checking"},
    "C17": {"run": run_C17, "level": "model_checking", "exhaustive": True},   # every state of the finite constructor-input space is executed
    "C18": {"run": run_C18, "level": "model_checking"},
    "C19": {"run": run_C19, "level": "model_checking"},
    "C20": {"run": run_C20, "level": "model_checking"},
    "C14": {"run": run_C14, "level": "model_checking"},
    "C06": {"run": run_C06, "level": "model_checking"},
    "C07": {"run": run_C07, "level": "model_checking"},
    "C09": {"run": run_C09, "level": "model_checking"},
    "C10": {"run": run_C10, "level": "model_checking"},
    "C12": {"run": run_C12, "level": "model_checking"},
}


def replay(rep):
    if rep["kind"] == "api":
        return stages.replay_api(rep)
    if rep["kind"] == "trace":
        return stages.replay_trace(rep)
    if rep["kind"] == "case":
        return stages.replay_case(rep)
    if rep["kind"] == "gens":
        return stages.replay_gens(rep)
    if rep["kind"] == "vectors":
        st = stages.vectors_stage("replay", rep["seed"])
        return [v["message"] for v in st.violations]
    if rep["kind"] == "codec":
        return stages.replay_codec(rep)
    if rep["kind"] == "mem":
        return stages.replay_mem(rep)
    if rep["kind"] == "threads":
        return stages.replay_threads(rep)
    raise vlib.ToolError("unknown replay kind " + rep["kind"])


# ---------------------------------------------------------------------------------------------------
# evidence, known findings, exit status
# ---------------------------------------------------------------------------------------------------
def load_known(pid):
    if not os.path.exists(KNOWN):
        return []
    return [f for f in json.load(open(KNOWN)).get("findings", []) if f["property"] == pid]


def finish(pid, spec, tier, seed, results, wall):
    known = load_known(pid)
    violations = []
    known_hit = {}
    for st in results:
        for v in st.violations:
            key = v["replay"].get("finding_key")
            hit = next((f for f in known if key is not None and f["key"] == key), None)
            if hit:
                known_hit[hit["key"]] = hit
            else:
                violations.append((st, v))
    cov = {
        "states": sum(s.states for s in results),
        "transitions": sum(s.transitions for s in results),
        "traces_validated_against_impl": sum(s.traces for s in results),
        "evaluations": sum(s.evaluations for s in results),
        "distinct_nontrivial": len(set().union(*[s.distinct for s in results])) if results else 0,
        "rule": "cases are the behaviours TLC enumerates from the specification (or executions recorded from the library); "
                "two cases are distinct when the specification-level scenario / recorded input differs; the single default honest "
                "member is counted as trivial",
        "samples": [x for s in results for x in s.samples][:6],
        "stages": [{"name": s.name, "states": s.states, "transitions": s.transitions, "executions": s.evaluations,
                    "traces": s.traces, "distinct": len(s.distinct), "wall_s": round(s.wall, 1), "notes": s.notes,
                    "negative_configs": s.negatives} for s in results],
        "exhaustive": bool(spec.get("exhaustive")) and all(s.notes.get("exhaustive", True) is not False for s in results),
        "known_findings_observed": sorted(known_hit.keys()),
    }
    ev = {
        "property_id": pid, "tier": tier, "seed": seed, "level": spec["level"], "coverage": cov,
        "assumptions": spec.get("assumptions", [
            "cryptographic hardness (discrete log, random-oracle behaviour of STROBE/SHA3/Blake2b) is not modelled",
            "the abstract crypto of BPPApi.tla is justified by the algebra/transcript modules and bound to the code by replay"]),
        "wall_s": round(wall, 2), "violations": len(violations),
    }
    vlib.write_json(os.path.join(EVID, pid + ".json"), ev)
    for f in known_hit.values():
        print(f"KNOWN-FINDING: property={pid} {f['what']}")
    if not violations:
        print(f"OK property={pid} tier={tier} seed={seed} states={cov['states']} executions={cov['evaluations']} wall={wall:.0f}s")
        return 0
    os.makedirs(os.path.join(REPLAYS, pid), exist_ok=True)
    seen = set()
    for st, v in violations[:20]:
        d = vlib.digest(v["replay"])
        if d in seen:
            continue
        seen.add(d)
        path = os.path.join(REPLAYS, pid, d + ".json")
        vlib.write_json(path, {"property": pid, "stage": st.name, "message": v["message"], "replay": v["replay"]})
        print(f"VIOLATION property={pid} replay={path}")
        print("  " + v["message"][:500])
    if len(violations) > 20:
        print(f"  ... {len(violations) - 20} further violations not written")
    return 1
