#!/usr/bin/env python3
"""Assemble /verif/DESIGN.md from docs/design_*.md and the seeded-change table."""
import os, subprocess, sys
V = os.path.dirname(os.path.dirname(os.path.abspath(__file__)))
parts = []
for f in ["design_1_head.md", "design_2_asbuilt.md", "design_3_seeded_intro.md"]:
    parts.append(open(os.path.join(V, "docs", f)).read())
parts.append(subprocess.run([sys.executable, os.path.join(V, "lib", "mkdesign_table.py")], stdout=subprocess.PIPE, text=True).stdout)
parts.append("\n---------------------------------------------------------------------------------------------------\n\n")
parts.append(open(os.path.join(V, "docs", "design_4_deviations.md")).read())
open(os.path.join(V, "DESIGN.md"), "w").write("".join(parts))
print("DESIGN.md:", sum(p.count("\n") for p in parts), "lines")
