#!/bin/sh
# usage: benign_eval.sh <slot e1|e2|e3> <patch> <tag>  -- apply a behaviour-preserving change in the slot's worktree, run all checks
SLOT=$1; PATCH=$2; TAG=$3
W=/tmp/ev/$SLOT
git -C $W checkout -- . && git -C $W apply $PATCH || { echo "PATCH-FAIL $TAG"; exit 0; }
echo "=== $TAG"
/verif/lib/sidecheck.sh $W $SLOT C01 C02 C03 C04 C05 C06 C07 C08 C09 C10 C11 C12 C13 C14 C15 C16 C17 C18 C19 C20
git -C $W checkout -- .
